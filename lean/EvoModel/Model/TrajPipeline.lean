/-
Executable semantics of the `evo_traj` plan (`Model/TrajPlan.lean`) on rational trajectories:
every step of the plan is executed with the model of the property that owns it —
down-sampling / motion filter / merge order (`Model/Select.lean`, C11), association
(`Model/Sync.lean`, C05), Umeyama / origin alignment (`Model/Align.lean`, C04), the loaded
transformation and its inverse (`Model/TrajPlan.lean`, C15), plane projection (`Model/Project.lean`, C14).

External numerics are *certified parameters* taken from evo's own run (`Cert`): step lengths and
rotation angles seen by the motion filter (square roots / arccos), the Umeyama triple (SVD), the scale
`sim3_scale` extracts from the loaded matrix (cube root), the (cos, sin) of the projected headings
(atan2 / exp).  Everything else — which poses are kept, which are paired, what is multiplied with
what on which side, in which order — is computed here in exact arithmetic.  No Mathlib.
-/
import EvoModel.Model.TrajPlan
import EvoModel.Model.Select
import EvoModel.Model.Sync
import EvoModel.Model.Align
import EvoModel.Model.Project
namespace Evo.TrajPipeline
open Evo Evo.TrajPlan

/-- a path (`stamps = none`, KITTI) or a trajectory -/
structure Traj where
  stamps : Option (List Rat)
  poses : List (Pose Rat)
deriving Repr

inductive PErr where
  | select      -- TrajectoryException / FilterException of downsample / motion_filter
  | sync        -- SyncException
  | align       -- alignment impossible (empty trajectory, missing parameter)
  | noRef
  | noStamps
  | noTransform
deriving DecidableEq, Repr

/-- external numerics of one trajectory, taken from evo's run -/
structure Cert where
  /-- `‖pᵢ₊₁ − pᵢ‖` as the motion filter sees them -/
  mfLens : List Rat := []
  /-- `so3_log_angle(relative_so3(Rⱼ, Rᵢ))`, row `j`, column `i` -/
  mfAng : List (List Rat) := []
  /-- `numpy.deg2rad(angle_threshold)` -/
  mfAngRad : Rat := 0
  /-- the triple `umeyama_alignment` returned -/
  umeR : M3 Rat := M3.one
  umeT : V3 Rat := V3.zero
  umeS : Rat := 1
  /-- (cos φ, sin φ) of the projected heading of every pose -/
  projDirs : List (Rat × Rat) := []
deriving Repr

structure Item where
  traj : Traj
  /-- the associated reference (`ref_traj_tmp`); `none`: the reference itself -/
  refTmp : Option Traj := none

structure St where
  items : List Item
  merged : Bool := false

structure Env where
  /-- the reference as `run` sees it when associating / aligning (after its own down-sampling and filtering) -/
  ref : Option Traj
  tfLeft : Option (Pose Rat)
  tfRight : Option (Pose Rat)
  /-- `sim3_scale` of the loaded matrices -/
  tfScaleLeft : Rat
  tfScaleRight : Rat
  /-- one certificate per input trajectory, and the one of the merged trajectory -/
  certs : List Cert
  mergedCert : Cert

def certsOf (env : Env) (st : St) : List Cert := if st.merged then [env.mergedCert] else env.certs

def onItems (env : Env) (st : St) (f : Cert → Item → Except PErr Item) : Except PErr St :=
  match (List.zip (certsOf env st) st.items).mapM (fun ci => f ci.1 ci.2) with
  | .ok items => .ok { st with items := items }
  | .error e => .error e

def selErr {α} : Except Select.Err α → Except PErr α
  | .ok a => .ok a
  | .error _ => .error .select

/-! ### the steps on one trajectory -/

def downsampleTraj (n : Nat) (t : Traj) : Except PErr Traj := do
  let poses ← selErr (Select.downsample t.poses n)
  match t.stamps with
  | none => pure ⟨none, poses⟩
  | some s => do
      let s' ← selErr (Select.downsample s n)
      pure ⟨some s', poses⟩

def angOf (m : List (List Rat)) (j i : Nat) : Rat := ((m[j]?).bind (fun r => r[i]?)).getD 0

/-- `motion_filter(distance, angle, degrees=True)`: kept indices by `Select.motionFilter` -/
def motionFilterTraj (c : Cert) (d : Rat) (t : Traj) : Except PErr Traj := do
  let ids ← selErr (Select.motionFilter c.mfLens (angOf c.mfAng) d c.mfAngRad)
  pure ⟨t.stamps.map (fun s => reduceIds s ids), reduceIds t.poses ids⟩

/-- `trajectory.merge`: concatenate, order by stamp -/
def mergeTrajs (ts : List Traj) : Except PErr Traj :=
  match ts.mapM (fun (t : Traj) => t.stamps) with
  | none => .error .noStamps
  | some stamps =>
    let s : List Rat := stamps.flatten
    let order := Select.argsortStable s
    .ok ⟨some (reduceIds s order), reduceIds (ts.map (fun (t : Traj) => t.poses)).flatten order⟩

/-- `traj.timestamps += dt` (a float addition) -/
def offsetTraj (dt : Rat) (t : Traj) : Except PErr Traj :=
  match t.stamps with
  | none => .error .noStamps
  | some s => .ok ⟨some (s.map (fun x => F64.rne! (x + dt))), t.poses⟩

/-- `sync.associate_trajectories(ref, traj, max_diff)` → `(ref_tmp, traj)` -/
def syncItem (env : Env) (md : Rat) (it : Item) : Except PErr Item :=
  match env.ref with
  | none => .error .noRef
  | some ref =>
    match ref.stamps, it.traj.stamps with
    | some sr, some st =>
      match Sync.associateIds sr st md 0 with
      | .error _ => .error .sync
      | .ok (ir, ie) =>
        .ok ⟨⟨some (reduceIds st ie), reduceIds it.traj.poses ie⟩, some ⟨some (reduceIds sr ir), reduceIds ref.poses ir⟩⟩
    | _, _ => .error .noStamps

def refOf (env : Env) (it : Item) : Except PErr Traj :=
  match it.refTmp with
  | some r => .ok r
  | none => match env.ref with
    | some r => .ok r
    | none => .error .noRef

/-- `traj.align(ref_tmp, correct_scale, correct_only_scale, n)` with the certified Umeyama triple -/
def alignItem (c : Cert) (cs only : Bool) (it : Item) : Except PErr Item :=
  .ok { it with traj := ⟨it.traj.stamps, Align.alignApply (Align.modeOf cs only) c.umeR c.umeT c.umeS it.traj.poses⟩ }

def alignOriginItem (env : Env) (it : Item) : Except PErr Item :=
  match refOf env it with
  | .error e => .error e
  | .ok r =>
    match Align.alignOrigin r.poses it.traj.poses with
    | none => .error .align
    | some (_, ps) => .ok { it with traj := ⟨it.traj.stamps, ps⟩ }

/-- load, optionally invert, apply on the selected side -/
def transformItem (env : Env) (file : TfFile) (inverted rightMul propagate : Bool) (it : Item) : Except PErr Item :=
  match (match file with | .left => env.tfLeft | .right => env.tfRight) with
  | none => .error .noTransform
  | some T =>
    let sc := match file with | .left => env.tfScaleLeft | .right => env.tfScaleRight
    -- the scale of the inverse of a matrix of scale `s` is `1/s`
    let (M, s) := if inverted then (invertTransform T sc, if isSe3Tol T then sc else 1 / sc) else (T, sc)
    .ok { it with traj := ⟨it.traj.stamps, applyTransform M rightMul propagate s it.traj.poses⟩ }

def planeOf : TrajPlan.Plane → Project.Plane
  | .xy => .xy | .xz => .xz | .yz => .yz

def projectTraj (c : Cert) (p : TrajPlan.Plane) (t : Traj) : Traj :=
  ⟨t.stamps, Project.projectPoses (planeOf p) t.poses c.projDirs⟩

/-- one step of the plan on the whole state -/
def stepRun (env : Env) (k : Step) (st : St) : Except PErr St :=
  match k with
  | .downsample n => onItems env st (fun _ it => (downsampleTraj n it.traj).map (fun t => { it with traj := t }))
  | .motionFilter d _ => onItems env st (fun c it => (motionFilterTraj c d it.traj).map (fun t => { it with traj := t }))
  | .merge => (mergeTrajs (st.items.map (·.traj))).map (fun t => ⟨[⟨t, none⟩], true⟩)
  | .tOffset dt => onItems env st (fun _ it => (offsetTraj dt it.traj).map (fun t => { it with traj := t }))
  | .sync md => onItems env st (fun _ it => syncItem env md it)
  | .align cs only _ => onItems env st (fun c it => alignItem c cs only it)
  | .alignOrigin => onItems env st (fun _ it => alignOriginItem env it)
  | .transform f i r p => onItems env st (fun _ it => transformItem env f i r p it)
  | .project p => onItems env st (fun c it => .ok { it with traj := projectTraj c p it.traj })
  | .exportTum => .ok st
  | .exportKitti => .ok st

/-- the steps of the reference -/
def refStep (c : Cert) (k : Step) (t : Traj) : Except PErr Traj :=
  match k with
  | .downsample n => downsampleTraj n t
  | .motionFilter d _ => motionFilterTraj c d t
  | .project p => .ok (projectTraj c p t)
  | _ => .ok t

/-! ### running a plan -/

section
variable {σ : Type}

/-- execute the steps from left to right; the first error stops the run -/
def runSteps (step : Step → σ → Except PErr σ) : List Step → σ → Except PErr σ
  | [], s => .ok s
  | k :: r, s =>
    match step k s with
    | .ok s' => runSteps step r s'
    | .error e => .error e

/-- a step that is executed only when its option is set -/
def stage (step : Step → σ → Except PErr σ) (b : Bool) (k : Step) (s : σ) : Except PErr σ :=
  if b then step k s else .ok s

def stagePlane (step : Step → σ → Except PErr σ) (p : Option TrajPlan.Plane) (s : σ) : Except PErr σ :=
  match p with
  | some q => step (.project q) s
  | none => .ok s

def andThen (a : Except PErr σ) (f : σ → Except PErr σ) : Except PErr σ :=
  match a with
  | .ok s => f s
  | .error e => .error e

/-- **the documented pipeline**, written out: each stage runs iff its option is set, in the order
down-sampling, motion filter, merge, time offset, association, Umeyama alignment, origin alignment,
left transformation, right transformation, projection, export -/
def documentedPipeline (step : Step → σ → Except PErr σ) (o : TrajOpts) (s : σ) : Except PErr σ :=
  let f := o.flags
  andThen (stage step f.downsample (.downsample o.downsample) s) fun s =>
  andThen (stage step f.motionFilter (.motionFilter o.mfDistance o.mfAngleDeg) s) fun s =>
  andThen (stage step f.merge .merge s) fun s =>
  andThen (stage step f.tOffset (.tOffset o.tOffset) s) fun s =>
  andThen (stage step (f.synced && f.sub != .kitti) (.sync o.tMaxDiff) s) fun s =>
  andThen (stage step (f.synced && (f.align || f.correctScale))
    (.align f.correctScale (f.correctScale && !f.align) o.nToAlign) s) fun s =>
  andThen (stage step (f.synced && f.alignOrigin) .alignOrigin s) fun s =>
  andThen (stage step f.transformLeft (.transform .left f.invert false f.propagate) s) fun s =>
  andThen (stage step f.transformRight (.transform .right f.invert true f.propagate) s) fun s =>
  andThen (stagePlane step f.plane s) fun s =>
  andThen (stage step f.saveTum .exportTum s) fun s =>
  stage step f.saveKitti .exportKitti s

/-- the documented treatment of the reference: down-sampling, motion filter, projection, export -/
def documentedRef (step : Step → σ → Except PErr σ) (o : TrajOpts) (s : σ) : Except PErr σ :=
  let f := o.flags
  if f.ref then
    andThen (stage step f.downsample (.downsample o.downsample) s) fun s =>
    andThen (stage step f.motionFilter (.motionFilter o.mfDistance o.mfAngleDeg) s) fun s =>
    andThen (stagePlane step f.plane s) fun s =>
    andThen (stage step f.saveTum .exportTum s) fun s =>
    stage step f.saveKitti .exportKitti s
  else .ok s

end

/-! ### evo_traj on rational inputs -/

structure Inputs where
  trajs : List Traj
  ref : Option Traj
  certs : List Cert
  mergedCert : Cert
  refCert : Cert
  tfLeft : Option (Pose Rat)
  tfRight : Option (Pose Rat)
  tfScaleLeft : Rat
  tfScaleRight : Rat

/-- the reference as the association / alignment steps see it: only the steps of rank < 4 applied -/
def refBeforeSync (o : TrajOpts) (inp : Inputs) : Except PErr (Option Traj) :=
  match inp.ref with
  | none => .ok none
  | some r => (runSteps (refStep inp.refCert) ((refPlan o).filter (fun k => k.rank < 4)) r).map some

def envOf (inp : Inputs) (ref : Option Traj) : Env :=
  ⟨ref, inp.tfLeft, inp.tfRight, inp.tfScaleLeft, inp.tfScaleRight, inp.certs, inp.mergedCert⟩

/-- `run`: the exported trajectories and the exported reference, or the reason why nothing is exported -/
def trajRun (o : TrajOpts) (inp : Inputs) : Except (Die ⊕ PErr) (List Traj × Option Traj) :=
  match trajPlan o with
  | .error d => .error (.inl d)
  | .ok plan =>
    match refBeforeSync o inp with
    | .error e => .error (.inr e)
    | .ok refPre =>
      match runSteps (stepRun (envOf inp refPre)) plan ⟨inp.trajs.map (fun t => ⟨t, none⟩), false⟩ with
      | .error e => .error (.inr e)
      | .ok st =>
        match inp.ref with
        | none => .ok (st.items.map (·.traj), none)
        | some r =>
          match runSteps (refStep inp.refCert) (refPlan o) r with
          | .error e => .error (.inr e)
          | .ok r' => .ok (st.items.map (·.traj), some r')

end Evo.TrajPipeline
