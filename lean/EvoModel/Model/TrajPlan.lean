/-
Model of `evo_traj` (`evo/main_traj.py: run`, code as it is now, after fix 0088a59): which
processing steps are applied to each trajectory and to the reference, in which order, with which
flag wired to which argument; plus the rational semantics of the steps whose wiring is the point of
property C15: `--invert_transform` (`se3_inverse` / `sim3_inverse` selected by `is_se3`) and
`PosePath3D.transform(t, right_mul, propagate)` (after fix 91a1eaa).

Two levels:
* `Flags`  – the Boolean view of the parsed `argparse.Namespace` (which options are truthy); the
  step *kinds* and their order depend only on it (`kinds`, `refKinds`), so that statements about the
  order can be decided over the whole option lattice;
* `TrajOpts` – flags plus the option values; `trajPlan`/`refPlan` attach the values to the kinds.
No Mathlib.
-/
import EvoModel.Model.Lin
namespace Evo.TrajPlan

inductive Sub where
  | tum | kitti | euroc
deriving DecidableEq, Repr

inductive Plane where
  | xy | xz | yz
deriving DecidableEq, Repr

/-- which options of the parsed namespace are truthy -/
structure Flags where
  sub : Sub
  /-- `--ref` given -/
  ref : Bool
  /-- no trajectory besides the reference (`len(trajectories) == 0`) -/
  noTraj : Bool
  /-- `args.downsample` (given and ≠ 0) -/
  downsample : Bool
  motionFilter : Bool
  merge : Bool
  /-- `args.t_offset` (≠ 0) -/
  tOffset : Bool
  /-- `args.n_to_align != -1` -/
  nToAlign : Bool
  sync : Bool
  align : Bool
  correctScale : Bool
  alignOrigin : Bool
  transformLeft : Bool
  transformRight : Bool
  invert : Bool
  propagate : Bool
  plane : Option Plane
  saveTum : Bool
  saveKitti : Bool
deriving DecidableEq, Repr

/-- why `run` stops without exporting anything -/
inductive Die where
  /-- argparse: `--align` and `--align_origin` are mutually exclusive (exit 2) -/
  | parser
  | mergeKitti
  | mergeNothing
  | offsetWithoutStamps
  | nToAlignUseless
  | noReference
  /-- `write_tum_trajectory_file` raises for a path without timestamps (KITTI input) -/
  | tumWithoutStamps
deriving DecidableEq, Repr

/-- file a transformation is loaded from -/
inductive TfFile where
  | left | right
deriving DecidableEq, Repr

/-- value-free step kinds -/
inductive Kind where
  | downsample
  | motionFilter
  | merge
  | tOffset
  /-- `sync.associate_trajectories(ref, traj, max_diff)` -/
  | sync
  /-- `traj.align(ref, correct_scale, correct_only_scale, n)` -/
  | align (correctScale onlyScale : Bool)
  | alignOrigin
  /-- `traj.transform(load(file) [inverted], right_mul, propagate)` -/
  | transform (file : TfFile) (inverted rightMul propagate : Bool)
  | project (p : Plane)
  | exportTum
  | exportKitti
deriving DecidableEq, Repr

/-- position of a step kind in the documented order -/
def Kind.rank : Kind → Nat
  | .downsample => 0
  | .motionFilter => 1
  | .merge => 2
  | .tOffset => 3
  | .sync => 4
  | .align _ _ => 5
  | .alignOrigin => 6
  | .transform .left _ _ _ => 7
  | .transform .right _ _ _ => 8
  | .project _ => 9
  | .exportTum => 10
  | .exportKitti => 11

def opt (b : Bool) (k : Kind) : List Kind := if b then [k] else []

/-- the projection step, when `--project_to_plane` is given -/
def optPlane : Option Plane → List Kind
  | some p => [.project p]
  | none => []

/-- `synced = (subcommand == "kitti" and ref_traj) or any((sync, align, correct_scale, align_origin))` -/
def Flags.synced (f : Flags) : Bool :=
  (f.sub == .kitti && f.ref) || f.sync || f.align || f.correctScale || f.alignOrigin

/-- the first reason (in program order) for which `run` dies, if any -/
def dies (f : Flags) : Option Die :=
  if f.align && f.alignOrigin then some .parser
  else if f.merge && f.sub == .kitti then some .mergeKitti
  else if f.merge && f.noTraj then some .mergeNothing
  else if f.tOffset && !f.noTraj && f.sub == .kitti then some .offsetWithoutStamps
  else if f.nToAlign && !(f.align || f.correctScale) then some .nToAlignUseless
  else if f.synced && !f.ref then some .noReference
  else if f.saveTum && f.sub == .kitti && (!f.noTraj || f.ref) then some .tumWithoutStamps
  else none

/-- export steps (shared by trajectories and reference) -/
def exports (f : Flags) : List Kind := opt f.saveTum .exportTum ++ opt f.saveKitti .exportKitti

/-- steps applied to every non-reference trajectory, in program order -/
def kinds (f : Flags) : Except Die (List Kind) :=
  match dies f with
  | some d => .error d
  | none => .ok (
      opt f.downsample .downsample ++
      opt f.motionFilter .motionFilter ++
      opt f.merge .merge ++
      opt f.tOffset .tOffset ++
      opt (f.synced && f.sub != .kitti) .sync ++
      opt (f.synced && (f.align || f.correctScale)) (.align f.correctScale (f.correctScale && !f.align)) ++
      opt (f.synced && f.alignOrigin) .alignOrigin ++
      opt f.transformLeft (.transform .left f.invert false f.propagate) ++
      opt f.transformRight (.transform .right f.invert true f.propagate) ++
      optPlane f.plane ++
      exports f)

/-- the transformation step of the code before fix 20269c0 (finding F13): one step, the left file when
given, multiplied on the right whenever `--transform_right` is given -/
def transformStepOld (f : Flags) : List Kind :=
  opt (f.transformLeft || f.transformRight)
    (.transform (if f.transformLeft then .left else .right) f.invert f.transformRight f.propagate)

/-- the transformation steps now: each given file on its own side, left first -/
def transformSteps (f : Flags) : List Kind :=
  opt f.transformLeft (.transform .left f.invert false f.propagate) ++
  opt f.transformRight (.transform .right f.invert true f.propagate)

/-- steps applied to the reference -/
def refKinds (f : Flags) : List Kind :=
  if f.ref then
    opt f.downsample .downsample ++ opt f.motionFilter .motionFilter ++
    optPlane f.plane ++ exports f
  else []

/-- a flag set without any processing option -/
def Flags.noProcessing (f : Flags) : Bool :=
  !f.downsample && !f.motionFilter && !f.merge && !f.tOffset && !f.nToAlign && !f.sync && !f.align &&
  !f.correctScale && !f.alignOrigin && !f.transformLeft && !f.transformRight && f.plane.isNone

/-! ### options with values -/

structure TrajOpts where
  flags : Flags
  downsample : Nat := 0
  mfDistance : Rat := 0
  mfAngleDeg : Rat := 0
  tOffset : Rat := 0
  tMaxDiff : Rat := 1 / 100
  nToAlign : Int := -1

inductive Step where
  | downsample (n : Nat)
  | motionFilter (distance angleDeg : Rat)
  | merge
  | tOffset (dt : Rat)
  | sync (maxDiff : Rat)
  | align (correctScale onlyScale : Bool) (n : Int)
  | alignOrigin
  | transform (file : TfFile) (inverted rightMul propagate : Bool)
  | project (p : Plane)
  | exportTum
  | exportKitti
deriving DecidableEq, Repr

def Step.rank : Step → Nat
  | .downsample _ => 0
  | .motionFilter _ _ => 1
  | .merge => 2
  | .tOffset _ => 3
  | .sync _ => 4
  | .align _ _ _ => 5
  | .alignOrigin => 6
  | .transform .left _ _ _ => 7
  | .transform .right _ _ _ => 8
  | .project _ => 9
  | .exportTum => 10
  | .exportKitti => 11

/-- which argument feeds which step -/
def attach (o : TrajOpts) : Kind → Step
  | .downsample => .downsample o.downsample
  | .motionFilter => .motionFilter o.mfDistance o.mfAngleDeg
  | .merge => .merge
  | .tOffset => .tOffset o.tOffset
  | .sync => .sync o.tMaxDiff
  | .align c s => .align c s o.nToAlign
  | .alignOrigin => .alignOrigin
  | .transform f i r p => .transform f i r p
  | .project p => .project p
  | .exportTum => .exportTum
  | .exportKitti => .exportKitti

def trajPlan (o : TrajOpts) : Except Die (List Step) :=
  match kinds o.flags with
  | .error d => .error d
  | .ok l => .ok (l.map (attach o))

def refPlan (o : TrajOpts) : List Step := (refKinds o.flags).map (attach o)

/-- what the model assumes about the parser: `(dest, action, type, repr(default), nargs, choices)`
of every option it reads (compared with the regenerated table `Gen/TrajOptions.lean`) -/
def expectedOptions : List (String × String × String × String × String × String) := [
  ("correct_scale", "store_true", "None", "False", "0", ""),
  ("n_to_align", "store", "int", "-1", "", ""),
  ("sync", "store_true", "None", "False", "0", ""),
  ("transform_left", "store", "None", "None", "", ""),
  ("transform_right", "store", "None", "None", "", ""),
  ("propagate_transform", "store_true", "None", "False", "0", ""),
  ("invert_transform", "store_true", "None", "False", "0", ""),
  ("ref", "store", "None", "None", "", ""),
  ("t_offset", "store", "float", "0.0", "", ""),
  ("t_max_diff", "store", "float", "0.01", "", ""),
  ("merge", "store_true", "None", "False", "0", ""),
  ("project_to_plane", "store", "str", "None", "", "xy,xz,yz"),
  ("downsample", "store", "int", "None", "", ""),
  ("motion_filter", "store", "float", "None", "2", ""),
  ("align", "store_true", "None", "False", "0", ""),
  ("align_origin", "store_true", "None", "False", "0", ""),
  ("save_as_tum", "store_true", "None", "False", "0", ""),
  ("save_as_kitti", "store_true", "None", "False", "0", "")]

/-! ### `--invert_transform` and `transform()` over exact rationals -/

def atol : Rat := 1 / 1000000
def rtol : Rat := 1 / 100000

/-- `numpy.isclose(a, b, atol=1e-6)` with the default `rtol=1e-5` -/
def isClose (a b : Rat) : Bool := decide (absR (a - b) ≤ atol + rtol * absR b)

def allCloseM3 (g h : M3 Rat) : Bool :=
  isClose g.a00 h.a00 && isClose g.a01 h.a01 && isClose g.a02 h.a02 &&
  isClose g.a10 h.a10 && isClose g.a11 h.a11 && isClose g.a12 h.a12 &&
  isClose g.a20 h.a20 && isClose g.a21 h.a21 && isClose g.a22 h.a22

/-- `lie.is_so3`: determinant close to 1 and `rᵀ r` close to the identity -/
def isSo3Tol (r : M3 Rat) : Bool := isClose r.det 1 && allCloseM3 (r.transpose.mul r) M3.one

/-- `lie.is_se3` (the bottom row `0 0 0 1` is structural in `Pose`) -/
def isSe3Tol (p : Pose Rat) : Bool := isSo3Tol p.rot

/-- distance of the tolerance decisions from their thresholds (smallest over the ten tests) -/
def se3Margin (p : Pose Rat) : Rat :=
  let g := p.rot.transpose.mul p.rot
  let m (a b : Rat) : Rat := absR (atol + rtol * absR b - absR (a - b))
  [m g.a00 1, m g.a01 0, m g.a02 0, m g.a10 0, m g.a11 1, m g.a12 0, m g.a20 0, m g.a21 0, m g.a22 1].foldl
    (fun a b => if b < a then b else a) (m p.rot.det 1)

/-- `run`: `se3_inverse` when `is_se3(transform)`, else `sim3_inverse`; `s` is the scale
`sim3_scale` extracts (`det^(1/3)`, an external numeric result) -/
def invertTransform (T : Pose Rat) (s : Rat) : Pose Rat :=
  if isSe3Tol T then T.inv else T.sim3Inv s

/-- the code before fix 0088a59: always `se3_inverse` -/
def invertTransformOld (T : Pose Rat) : Pose Rat := T.inv

/-- propagated right-multiplication: `new₀ = p₀`, `newⱼ₊₁ = newⱼ · (rel pⱼ pⱼ₊₁ · T)` -/
def propagateGo (T : Pose Rat) (acc : Pose Rat) : List (Pose Rat) → List (Pose Rat)
  | p :: q :: r => let n := acc.mul ((p.rel q).mul T); n :: propagateGo T n (q :: r)
  | _ => []

def propagateRight (T : Pose Rat) : List (Pose Rat) → List (Pose Rat)
  | [] => []
  | p :: r => p :: propagateGo T p (p :: r)

/-- `lie.se3(p[:3,:3] / sim3_scale(p), p[:3,3])` with the scale given -/
def normaliseRot (s : Rat) (p : Pose Rat) : Pose Rat := ⟨M3.smul (1 / s) p.rot, p.t⟩

/-- divide the rotation block of pose `k` by `cur · step^k` -/
def normaliseFrom (step : Rat) (cur : Rat) : List (Pose Rat) → List (Pose Rat)
  | [] => []
  | p :: r => normaliseRot cur p :: normaliseFrom step (cur * step) r

/-- `PosePath3D.transform(T, right_mul, propagate)`.  When `T` is not SE(3) the code divides every
resulting rotation block by its own `sim3_scale` (`det^(1/3)`, an external numeric result); for rigid
input poses and `T` of scale `s` that is `s` (plain left / right multiplication) resp. `s^k` for pose
`k` of a propagated right-multiplication — the model takes `s` as a parameter. -/
def applyTransform (T : Pose Rat) (rightMul propagate : Bool) (s : Rat) (poses : List (Pose Rat)) :
    List (Pose Rat) :=
  let raw :=
    if rightMul && !propagate then poses.map (fun p => p.mul T)
    else if rightMul && propagate then propagateRight T poses
    else poses.map (fun p => T.mul p)
  if isSe3Tol T then raw
  else if rightMul && propagate then normaliseFrom s 1 raw
  else raw.map (normaliseRot s)

end Evo.TrajPlan
