/-
Model of `evo/core/geometry.py: umeyama_alignment` (lines 35-86), over exact numbers.

What *is* modelled, exactly as the code computes it: the shape test, `mean_x`, `mean_y`
(`x.mean(axis=1)`), `sigma_x = 1/n·‖x − mean_x‖²`, `cov_xy = 1/n·Σ (y_i − mean_y)(x_i − mean_x)ᵀ`,
the rank test of the covariance (`count_nonzero(d > max(eps, d.max()·3·eps)) < m − 1` after the
F12 fix; the tolerance only absorbs the rounding of the SVD — in exact arithmetic the test is
rank < 2 ⇔ all 2×2 minors vanish), `t = mean_y − c·r·mean_x`, and the residual the property
speaks about.

What is *not* modelled: `numpy.linalg.svd` and the products `u·s·v`, `trace(diag(d)·s)`.
Instead `umeCert ε withScale x y (R, t, c)` is an executable, exactly checkable certificate
on the *output* `(R, t, c)`; `Lemmas/Umeyama.lean` proves that every output passing
`umeCert 0` is a proper rotation / positive scale / least-squares optimum over all of
SO(3)×ℝ³(×ℝ₊). The driver evaluates `umeCert ε` on evo's float output read as exact rationals.

The statistics are polymorphic (like `Model/Lin`): executable over `Rat`, provable over any
ordered field. The certificate checker is over `Rat`.
-/
import EvoModel.Model.Lin
namespace Evo.Ume
open Evo

section
variable {K : Type} [Add K] [Mul K] [Sub K] [Neg K] [Zero K] [One K] [Div K] [NatCast K]

/-- `Σ_{a ∈ l} f a` -/
def sumMap {α : Type} (f : α → K) : List α → K
  | [] => 0
  | a :: l => f a + sumMap f l

/-- `n` = number of data points (columns of the 3×n matrix), as a number -/
def cnt {α : Type} (l : List α) : K := (l.length : K)

/-- `x.mean(axis=1)` -/
def mean (x : List (V3 K)) : V3 K :=
  ⟨sumMap V3.x x / cnt x, sumMap V3.y x / cnt x, sumMap V3.z x / cnt x⟩

/-- `sigma_x = 1/n · ‖x − mean_x‖_F²` (eq. 36) -/
def var (x : List (V3 K)) : K :=
  let m := mean x   -- evaluated once (the driver runs this on 2000 points)
  1 / cnt x * sumMap (fun p => V3.normSq (V3.sub p m)) x

/-- outer product `a·bᵀ` (`numpy.outer`) -/
def outer (a b : V3 K) : M3 K :=
  ⟨a.x * b.x, a.x * b.y, a.x * b.z, a.y * b.x, a.y * b.y, a.y * b.z, a.z * b.x, a.z * b.y, a.z * b.z⟩

/-- `cov_xy = 1/n · Σ_i outer(y_i − mean_y, x_i − mean_x)` (eq. 38); points are paired by index -/
def cov (x y : List (V3 K)) : M3 K :=
  let mx := mean x
  let my := mean y
  let l := x.zip y
  let e (f : V3 K → V3 K → K) : K :=
    1 / cnt x * sumMap (fun p : V3 K × V3 K => f (V3.sub p.2 my) (V3.sub p.1 mx)) l
  ⟨e (fun a b => a.x * b.x), e (fun a b => a.x * b.y), e (fun a b => a.x * b.z),
   e (fun a b => a.y * b.x), e (fun a b => a.y * b.y), e (fun a b => a.y * b.z),
   e (fun a b => a.z * b.x), e (fun a b => a.z * b.y), e (fun a b => a.z * b.z)⟩

/-- image of a point under the similarity `(R, t, c)`: `c·R·p + t` -/
def simApply (R : M3 K) (t : V3 K) (c : K) (p : V3 K) : V3 K :=
  V3.add (V3.smul c (M3.mulVec R p)) t

/-- sum of squared residuals `Σ_i ‖y_i − (c·R·x_i + t)‖²` -/
def resid (x y : List (V3 K)) (R : M3 K) (t : V3 K) (c : K) : K :=
  sumMap (fun p : V3 K × V3 K => V3.normSq (V3.sub p.2 (simApply R t c p.1))) (x.zip y)

/-- the translation the code returns: `t = mean_y − c·(r·mean_x)` (eq. 41) -/
def tFormula (x y : List (V3 K)) (R : M3 K) (c : K) : V3 K :=
  V3.sub (mean y) (V3.smul c (M3.mulVec R (mean x)))

/-- `A = Rᵀ·cov` — symmetric exactly when `R` is a polar factor of the covariance -/
def amat (x y : List (V3 K)) (R : M3 K) : M3 K := M3.mul (M3.transpose R) (cov x y)

/-- `B = tr(A)·I − A` -/
def bmat (A : M3 K) : M3 K := M3.sub (M3.smul (M3.trace A) M3.one) A

/-- the nine 2×2 minors of a 3×3 matrix (rows `i<j`, columns `k<l`) -/
def minors2 (m : M3 K) : List K :=
  [m.a00 * m.a11 - m.a01 * m.a10, m.a00 * m.a12 - m.a02 * m.a10, m.a01 * m.a12 - m.a02 * m.a11,
   m.a00 * m.a21 - m.a01 * m.a20, m.a00 * m.a22 - m.a02 * m.a20, m.a01 * m.a22 - m.a02 * m.a21,
   m.a10 * m.a21 - m.a11 * m.a20, m.a10 * m.a22 - m.a12 * m.a20, m.a11 * m.a22 - m.a12 * m.a21]

/-- the three principal 2×2 minors -/
def pm01 (b : M3 K) : K := b.a00 * b.a11 - b.a01 * b.a10
def pm02 (b : M3 K) : K := b.a00 * b.a22 - b.a02 * b.a20
def pm12 (b : M3 K) : K := b.a11 * b.a22 - b.a12 * b.a21

/-- symmetric part of a matrix, shifted by `(ε/2)·I`: `tr(A')·I − A' = tr(A)·I − sym(A) + ε·I` -/
def symShift (A : M3 K) (ε : K) : M3 K :=
  let h : K := 1 / (1 + 1)
  ⟨A.a00 + h * ε, h * (A.a01 + A.a10), h * (A.a02 + A.a20),
   h * (A.a01 + A.a10), A.a11 + h * ε, h * (A.a12 + A.a21),
   h * (A.a02 + A.a20), h * (A.a12 + A.a21), A.a22 + h * ε⟩

end

/-! ### refusal (exact counterparts of the two `raise GeometryException` sites) -/

/-- `x.shape != y.shape` (the dimension is 3 by construction, so: different numbers of points) -/
def shapeMismatch {α : Type} (x y : List α) : Bool := x.length != y.length

/-- exact rank test: `rank(cov) < m − 1 = 2` ⇔ every 2×2 minor vanishes. The code counts
singular values above numpy's `matrix_rank` tolerance; in exact arithmetic that is the rank. -/
def rankLt2 (m : M3 Rat) : Bool := (minors2 m).all (fun d => d == 0)

/-- the model refuses (`GeometryException`) -/
def umeRefuses (x y : List (V3 Rat)) : Bool := shapeMismatch x y || rankLt2 (cov x y)

/-- degenerate class 1: all points of a set coincide -/
def allCoincident (x : List (V3 Rat)) : Bool :=
  match x with
  | [] => true
  | a :: l => l.all (fun p => p == a)

/-- degenerate class 2: all points of a set lie on one coordinate axis -/
def onOneCoordinateAxis (x : List (V3 Rat)) : Bool :=
  x.all (fun p => p.y == 0 && p.z == 0) || x.all (fun p => p.x == 0 && p.z == 0)
    || x.all (fun p => p.x == 0 && p.y == 0)

/-- which refusal class an input is in (for the driver): 0 none, 1 shape, 2 coincident, 3 axis,
4 other rank-deficient covariance (e.g. collinear off-axis) -/
def refusalClass (x y : List (V3 Rat)) : Nat :=
  if shapeMismatch x y then 1
  else if allCoincident x || allCoincident y then 2
  else if onOneCoordinateAxis x || onOneCoordinateAxis y then 3
  else if rankLt2 (cov x y) then 4 else 0

/-! ### the certificate -/

def linfV (v : V3 Rat) : Rat := max (absR v.x) (max (absR v.y) (absR v.z))
def linfM (m : M3 Rat) : Rat :=
  max (max (max (absR m.a00) (absR m.a01)) (max (absR m.a02) (absR m.a10)))
    (max (max (absR m.a11) (absR m.a12)) (max (max (absR m.a20) (absR m.a21)) (absR m.a22)))

/-- (1a) `‖RᵀR − I‖_max ≤ ε` -/
def certOrtho (ε : Rat) (R : M3 Rat) : Bool :=
  decide (linfM (M3.sub (M3.mul (M3.transpose R) R) M3.one) ≤ ε)

/-- (1b) `det R ≥ 1 − ε` -/
def certDet (ε : Rat) (R : M3 Rat) : Bool := decide (1 - ε ≤ M3.det R)

/-- (2) `‖t − (μ_y − c·R·μ_x)‖_max ≤ ε·(‖μ_y‖_max + 3|c|·‖μ_x‖_max)` -/
def certT (ε : Rat) (x y : List (V3 Rat)) (R : M3 Rat) (t : V3 Rat) (c : Rat) : Bool :=
  decide (linfV (V3.sub t (tFormula x y R c)) ≤ ε * (linfV (mean y) + 3 * absR c * linfV (mean x)))

/-- (3a) `‖A − Aᵀ‖_max ≤ ε·‖cov‖_max` for `A = Rᵀ·cov` -/
def certSym (ε : Rat) (x y : List (V3 Rat)) (R : M3 Rat) : Bool :=
  let A := amat x y R
  decide (linfM (M3.sub A (M3.transpose A)) ≤ ε * linfM (cov x y))

/-- (3b) all seven principal minors of `B = tr(A)·I − A` are `≥ −ε·‖cov‖ᵏ` -/
def certPsd (ε : Rat) (x y : List (V3 Rat)) (R : M3 Rat) : Bool :=
  let B := bmat (amat x y R)
  let m := linfM (cov x y)
  decide (-(ε * m) ≤ B.a00) && decide (-(ε * m) ≤ B.a11) && decide (-(ε * m) ≤ B.a22)
    && decide (-(ε * (m * m)) ≤ pm01 B) && decide (-(ε * (m * m)) ≤ pm02 B)
    && decide (-(ε * (m * m)) ≤ pm12 B) && decide (-(ε * (m * m * m)) ≤ M3.det B)

/-- (4) with scale: `|c·σ_x² − tr A| ≤ ε·(|c|·σ_x² + ‖cov‖_max)` and `c > 0`; without: `c = 1` -/
def certScale (ε : Rat) (withScale : Bool) (x y : List (V3 Rat)) (R : M3 Rat) (c : Rat) : Bool :=
  if withScale then
    decide (absR (c * var x - M3.trace (amat x y R)) ≤ ε * (absR c * var x + linfM (cov x y)))
      && decide (0 < c)
  else decide (c = 1)

/-- the Umeyama certificate on an output `(R, t, c)` for the inputs `x`, `y` -/
def umeCert (ε : Rat) (withScale : Bool) (x y : List (V3 Rat)) (R : M3 Rat) (t : V3 Rat) (c : Rat) : Bool :=
  certOrtho ε R && certDet ε R && certT ε x y R t c && certSym ε x y R && certPsd ε x y R
    && certScale ε withScale x y R c

/-- uniqueness condition (decidable): `B = tr(A)·I − A` positive definite, by Sylvester's leading
minors. In terms of the singular values `d₁ ≥ d₂ ≥ d₃` of the covariance: `d₂ > 0` and not
(reflection case with `d₂ = d₃`). Under it the certified minimiser is the only one
(`Props/C03.umeyama_unique`). -/
def certPD (x y : List (V3 Rat)) (R : M3 Rat) : Bool :=
  let B := bmat (amat x y R)
  decide (0 < B.a00) && decide (0 < pm01 B) && decide (0 < M3.det B)

/-! ### quantified gap: ε-relaxed certificate with explicit slacks (see `Lemmas/UmeyamaApprox.lean`)

evo's float `R₁` is not exactly orthonormal. `approxReport` ties it to the exact rational rotation
`R = quatRot q` of a quaternion hint `q` (any non-zero rational quaternion gives an exact rotation,
no square root), measures the slacks of `(R, t, c)` exactly, and adds the exactly computed residual
gap `(resid(R₁,t,c) − resid(R,t,c))/n`. `Props/C03.umeyama_optimal_approx_checked`: whenever a report
is returned, `resid(R₁,t,c) ≤ resid(R',t',c') + n·b` for every proper rotation `R'`, `t'`, `c' ≥ 0`. -/

/-- rotation matrix of the quaternion `(w, x, y, z) ≠ 0`, normalised by `|q|²` (no square root) -/
def quatRot (w x y z : Rat) : M3 Rat :=
  let n := w * w + x * x + y * y + z * z
  ⟨(w * w + x * x - y * y - z * z) / n, 2 * (x * y - w * z) / n, 2 * (x * z + w * y) / n,
   2 * (x * y + w * z) / n, (w * w - x * x + y * y - z * z) / n, 2 * (y * z - w * x) / n,
   2 * (x * z - w * y) / n, 2 * (y * z + w * x) / n, (w * w - x * x - y * y + z * z) / n⟩

def asymMax (A : M3 Rat) : Rat :=
  max (absR (A.a01 - A.a10)) (max (absR (A.a02 - A.a20)) (absR (A.a12 - A.a21)))

/-- all seven principal minors non-negative -/
def minorsNonneg (B : M3 Rat) : Bool :=
  decide (0 ≤ B.a00) && decide (0 ≤ B.a11) && decide (0 ≤ B.a22) && decide (0 ≤ pm01 B) && decide (0 ≤ pm02 B)
    && decide (0 ≤ pm12 B) && decide (0 ≤ M3.det B)

/-- candidate slacks for the semidefiniteness: `0`, then `m·2⁻⁶⁰ … m·2⁻²⁰` -/
def psdLadder (m : Rat) : List Rat :=
  0 :: [60, 56, 52, 48, 44, 40, 36, 32, 28, 24, 20].map (fun k : Nat => m / ((2 ^ k : Nat) : Rat))

/-- the first ladder value `ε₃ ≥ 0` for which `tr(A)I − sym(A) + ε₃·I` has non-negative principal minors -/
def psdSlack (A : M3 Rat) (m : Rat) : Option Rat :=
  (psdLadder m).find? (fun e => decide (0 ≤ e) && minorsNonneg (bmat (symShift A e)))

structure ApproxReport where
  eta : Rat    -- ‖R₁ − R‖_max, distance of evo's R₁ to the exact rotation used
  e2 : Rat     -- asymmetry of A = Rᵀ·cov
  e3 : Rat     -- semidefiniteness slack
  e4 : Rat     -- ‖t − (μ_y − cRμ_x)‖²
  e5 : Rat     -- |c·σ_x² − tr A|  (0 without scale estimation)
  gap : Rat    -- (resid(R₁,t,c) − resid(R,t,c)) / n
  b : Rat      -- the bound: resid(R₁,t,c) ≤ resid(R',t',c') + n·b
deriving Repr

def approxReport (ws : Bool) (x y : List (V3 Rat)) (R₁ : M3 Rat) (t : V3 Rat) (c : Rat) (qw qx qy qz : Rat) :
    Option ApproxReport :=
  if qw * qw + qx * qx + qy * qy + qz * qz = 0 ∨ x.length ≠ y.length ∨ x = [] then none else
  let R := quatRot qw qx qy qz
  let A := amat x y R
  let e2 := asymMax A
  match psdSlack A (linfM (cov x y)) with
  | none => none
  | some e3 =>
    let e4 := V3.normSq (V3.sub t (tFormula x y R c))
    let τ := 3 * e2 + 3 * e3
    let gap := (resid x y R₁ t c - resid x y R t c) / cnt x
    let eta := linfM (M3.sub R₁ R)
    if ws then
      if 0 ≤ c ∧ 0 < var x then
        let e5 := absR (c * var x - M3.trace A)
        some ⟨eta, e2, e3, e4, e5, gap, e4 + 2 * c * τ + (e5 + τ) * (e5 + τ) / var x + gap⟩
      else none
    else if c = 1 then some ⟨eta, e2, e3, e4, 0, gap, e4 + 2 * τ + gap⟩ else none

end Evo.Ume
