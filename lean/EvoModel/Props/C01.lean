import EvoModel.Model.Ape
import EvoModel.Lemmas.Lin
namespace Evo.C01
open Evo

theorem ape_refuses_unequal (rel : PoseRelation) (ref est : List (Pose Rat)) (h : ref.length ≠ est.length) :
    ape rel ref est = .error .unequal := by
  unfold ape; simp [h]

end Evo.C01
