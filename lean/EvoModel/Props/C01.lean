/-
C01 — APE values equal the definition, pose by pose.

Model: `Model/Ape.lean` (`apeCore`, `ape`, `apePlan`), tied to `evo/core/metrics.py`,
`evo/main_ape.py`, `evo/common_ape_rpe.py` by `harness/props/C01.py` on every run.
The error values are the exact rational cores (`Core`: radicand of the final `sqrt`, or the
`(cos, sin²)` pair of the final `atan2`); `*_real` theorems interpret them over ℝ.
Rigidity hypotheses: `IsRigid p` = `RᵀR = 1` for the rotation block, `IsRot` adds `det = 1`.
-/
import EvoModel.Lemmas.Metrics
import EvoModel.Lemmas.MetricsReal
import EvoModel.Lemmas.Pipeline
namespace Evo.C01
open Evo

/-! ### one value per pose, in input order, equal to the definition of that pair -/

/-- exactly one value per pose -/
theorem ape_length {rel : PoseRelation} {ref est : List (Pose Rat)} {vs : List (Core Rat)}
    (h : ape rel ref est = .ok vs) : vs.length = ref.length ∧ vs.length = est.length := by
  obtain ⟨hl, _, _, rfl⟩ := ape_ok_iff.mp h
  constructor <;> simp [List.length_zipWith, hl]

/-- value `k` is the definition applied to reference pose `k` and estimate pose `k` -/
theorem ape_get {rel : PoseRelation} {ref est : List (Pose Rat)} {vs : List (Core Rat)}
    (h : ape rel ref est = .ok vs) (k : Nat) (hr : k < ref.length) (he : k < est.length) :
    vs[k]? = some (apeCore rel ref[k] est[k]) := by
  obtain ⟨_, _, _, rfl⟩ := ape_ok_iff.mp h
  rw [List.getElem?_zipWith, List.getElem?_eq_getElem hr, List.getElem?_eq_getElem he]

/-- the definitions themselves, relation by relation (`E = est⁻¹·ref` with the transpose-based inverse) -/
theorem apeCore_definition (ref est : Pose Rat) :
    apeCore .trans ref est = .sqrt (V3.normSq (V3.sub est.t ref.t)) ∧
    apeCore .pointDist ref est = .sqrt (V3.normSq (V3.sub est.t ref.t)) ∧
    apeCore .rot ref est = .sqrt (M3.frobSq (M3.sub (Pose.rel est ref).rot M3.one)) ∧
    apeCore .full ref est = .sqrt (M3.frobSq (M3.sub (Pose.rel est ref).rot M3.one) + V3.normSq (Pose.rel est ref).t) ∧
    apeCore .angleRad ref est = .angle (Pose.rel est ref).rot.angleCore.1 (Pose.rel est ref).rot.angleCore.2 false ∧
    apeCore .angleDeg ref est = .angle (Pose.rel est ref).rot.angleCore.1 (Pose.rel est ref).rot.angleCore.2 true :=
  ⟨rfl, rfl, rfl, rfl, rfl, rfl⟩

/-- the degree flag of an angle core agrees with the unit label of the metric (`APE.unit`) -/
theorem ape_angle_unit_consistent (rel : PoseRelation) (ref est : Pose Rat) (c s : Rat) (d : Bool)
    (h : apeCore rel ref est = .angle c s d) :
    (d = true ↔ rel.apeUnit = "deg") ∧ (d = false ↔ rel.apeUnit = "rad") := by
  cases rel <;> simp only [apeCore, reduceE] at h <;> cases h <;> simp [PoseRelation.apeUnit]

/-- sequences of different length are refused, not truncated -/
theorem ape_refuses_unequal (rel : PoseRelation) (ref est : List (Pose Rat)) (h : ref.length ≠ est.length) :
    ape rel ref est = .error .unequal := by
  unfold ape; rw [if_pos h]

/-- nothing else is refused for proper rigid poses: equal lengths and a relation APE supports give all values -/
theorem ape_total_of_rot (rel : PoseRelation) (ref est : List (Pose Rat)) (hl : ref.length = est.length)
    (hrel : rel ≠ .ratio) (hr : ∀ p ∈ ref, IsRot p.rot) (he : ∀ p ∈ est, IsRot p.rot) :
    ape rel ref est = .ok (List.zipWith (apeCore rel) ref est) := by
  rw [ape_ok_iff]
  refine ⟨hl, hrel, ?_, rfl⟩
  rintro ⟨_, h⟩
  rw [apeRots_all_of_isRot hr he] at h
  cases h

/-- APE does not support the error-ratio relation (`MetricsException`) -/
theorem ape_refuses_ratio (ref est : List (Pose Rat)) (hl : ref.length = est.length) :
    ape .ratio ref est = .error .unsupported := by
  unfold ape; rw [if_neg (not_not.mpr hl), if_pos rfl]

/-! ### zero / common motion / swap — all seven relations -/

/-- coinciding poses have error zero -/
theorem ape_zero_of_eq (rel : PoseRelation) (p : Pose Rat) (hp : IsRigid p) : (apeCore rel p p).IsZero :=
  apeCore_self rel hp

/-- … hence every value of `ape rel l l` is zero -/
theorem ape_zero_of_eq_list (rel : PoseRelation) (l : List (Pose Rat)) (vs : List (Core Rat))
    (hl : ∀ p ∈ l, IsRigid p) (h : ape rel l l = .ok vs) : ∀ v ∈ vs, v.IsZero := by
  obtain ⟨_, _, _, rfl⟩ := ape_ok_iff.mp h
  intro v hv
  rw [List.mem_iff_getElem] at hv
  obtain ⟨k, hk, rfl⟩ := hv
  rw [List.getElem_zipWith]
  exact apeCore_self rel (hl _ (List.getElem_mem _))

/-- the same rigid motion applied to reference and estimate changes no value -/
theorem ape_invariant_common_motion (rel : PoseRelation) (T ref est : Pose Rat) (hT : IsRigid T) :
    apeCore rel (T.mul ref) (T.mul est) = apeCore rel ref est :=
  apeCore_common_motion rel hT ref est

/-- … for whole trajectories, including the refusals -/
theorem ape_invariant_common_motion_list (rel : PoseRelation) (T : Pose Rat) (hT : IsRigid T)
    (ref est : List (Pose Rat)) :
    ape rel (ref.map T.mul) (est.map T.mul) = ape rel ref est := by
  have hrots : apeRots (ref.map T.mul) (est.map T.mul) = apeRots ref est := by
    unfold apeRots
    rw [List.zipWith_map]
    congr 1
    funext r e
    simp only [apeBase, Pose.rel_left_invariant T e r hT]
  have hvals : List.zipWith (apeCore rel) (ref.map T.mul) (est.map T.mul) = List.zipWith (apeCore rel) ref est := by
    rw [List.zipWith_map]
    congr 1
    funext r e
    exact apeCore_common_motion rel hT r e
  unfold ape
  rw [hrots, hvals, List.length_map, List.length_map]

/-- swapping reference and estimate changes no value -/
theorem ape_swap (rel : PoseRelation) (ref est : Pose Rat) (hr : IsRigid ref) (he : IsRigid est) :
    apeCore rel est ref = apeCore rel ref est :=
  apeCore_swap rel hr he

/-- … for whole trajectories of proper rigid poses -/
theorem ape_swap_list (rel : PoseRelation) (ref est : List (Pose Rat))
    (hr : ∀ p ∈ ref, IsRot p.rot) (he : ∀ p ∈ est, IsRot p.rot) :
    ape rel est ref = ape rel ref est := by
  by_cases hl : ref.length = est.length
  · by_cases hrel : rel = .ratio
    · subst hrel; rw [ape_refuses_ratio _ _ hl, ape_refuses_ratio _ _ hl.symm]
    · rw [ape_total_of_rot rel ref est hl hrel hr he, ape_total_of_rot rel est ref hl.symm hrel he hr]
      congr 1
      apply List.ext_getElem
      · simp only [List.length_zipWith, Nat.min_comm]
      · intro k h1 h2
        rw [List.getElem_zipWith, List.getElem_zipWith]
        exact apeCore_swap rel (hr _ (List.getElem_mem _)).1 (he _ (List.getElem_mem _)).1
  · rw [ape_refuses_unequal _ _ _ hl, ape_refuses_unequal _ _ _ (fun h => hl h.symm)]

/-! ### the reported real number -/

/-- every reported value is a non-negative real; angles lie in `[0, π]` (rad) resp. `[0, 180]` (deg) -/
theorem ape_value_real_range (c : Core ℝ) : 0 ≤ c.value ∧
    (∀ a s, c = .angle a s false → c.value ≤ Real.pi) ∧ (∀ a s, c = .angle a s true → c.value ≤ 180) :=
  ⟨Core.value_nonneg c, fun a s h => h ▸ Core.value_angle_rad_le a s, fun a s h => h ▸ Core.value_angle_deg_le a s⟩

/-- a zero core is reported as `0` -/
theorem ape_value_real_zero (c : Core ℝ) (h : c.IsZero) : c.value = 0 := Core.value_of_isZero h

/-- the angle reported for a proper rotation `R` is its geodesic angle: `θ ∈ [0, π]` with
`cos θ = (tr R − 1)/2` and `sin θ = ‖vee((R − Rᵀ)/2)‖` -/
theorem angle_is_geodesic (R : M3 ℝ) (h : IsRot R) :
    let θ := (Core.angle R.angleCore.1 R.angleCore.2 false).value
    0 ≤ θ ∧ θ ≤ Real.pi ∧ Real.cos θ = (R.trace - 1) / 2 ∧ Real.sin θ = Real.sqrt (R.axisVec.normSq) :=
  angle_geodesic R h

/-- the zero / common-motion / swap laws hold for the reported real numbers, over ℝ-valued poses -/
theorem ape_value_real_laws (rel : PoseRelation) (T ref est : Pose ℝ) (hT : IsRigid T) (hr : IsRigid ref)
    (he : IsRigid est) :
    (apeCore rel ref ref).value = 0 ∧
    (apeCore rel (T.mul ref) (T.mul est)).value = (apeCore rel ref est).value ∧
    (apeCore rel est ref).value = (apeCore rel ref est).value :=
  ⟨Core.value_of_isZero (apeCore_self rel hr), by rw [apeCore_common_motion rel hT], by rw [apeCore_swap rel hr he]⟩

/-- casting the rational core to ℝ is the core of the cast poses -/
theorem ape_core_cast (rel : PoseRelation) (ref est : Pose Rat) :
    (apeCore rel ref est).map (fun q : Rat => (q : ℝ)) = apeCore rel (ref.map (fun q : Rat => (q : ℝ))) (est.map (fun q : Rat => (q : ℝ))) :=
  apeCore_map_cast rel ref est

/-! ### evo_ape: option → step wiring, for every option combination -/

/-- the steps come in the documented order (strictly increasing rank, so each at most once):
downsample < motion filter < crop reference < associate < align < origin < project < metric < unit -/
theorem apePlan_order (o : CommonOpts) (steps : List Step) (h : apePlan o = .ok steps) :
    (steps.map Step.rank).Pairwise (· < ·) := by
  obtain ⟨pre, hp, rfl⟩ := apePlan_ok_iff.mp h
  obtain ⟨hs, hlt⟩ := prePlan_sorted hp
  simp only [List.map_append, List.pairwise_append, List.mem_append, List.mem_map, List.map_cons, List.map_nil,
    List.mem_singleton]
  refine ⟨⟨hs, List.pairwise_singleton _ _, ?_⟩, pairwise_rank_single _ (length_unitPart o), ?_⟩
  · rintro a ⟨s, hs, rfl⟩ b rfl
    exact hlt s hs
  · rintro a (⟨s, hs, rfl⟩ | rfl) b ⟨t, ht, rfl⟩ <;> rw [rank_unitPart ht]
    · exact Nat.lt_trans (hlt s hs) (by decide)
    · simp [Step.rank]

/-- which Umeyama variant runs: `-a` SE(3), `-a -s` Sim(3), `-s` alone scale only, neither: none;
always with `n = n_to_align` -/
theorem apePlan_align (o : CommonOpts) (steps : List Step) (h : apePlan o = .ok steps) (k : AlignKind) (n : Int) :
    Step.align k n ∈ steps ↔ alignKind o.align o.correctScale = some k ∧ n = o.nToAlign := by
  obtain ⟨pre, hp, rfl⟩ := apePlan_ok_iff.mp h
  rw [List.append_assoc, mem_of_rank_lt (apeTail_rank o) (by simp [Step.rank])]
  exact mem_pre_align_iff hp

/-- scale-only correction ⟺ `correct_scale ∧ ¬ align` -/
theorem apePlan_onlyScale (o : CommonOpts) (steps : List Step) (h : apePlan o = .ok steps) (n : Int) :
    Step.align .scaleOnly n ∈ steps ↔ (o.correctScale = true ∧ o.align = false) ∧ n = o.nToAlign := by
  rw [apePlan_align o steps h]
  have : alignKind o.align o.correctScale = some .scaleOnly ↔ (o.correctScale = true ∧ o.align = false) := by
    cases o.align <;> cases o.correctScale <;> decide
  rw [this]

/-- the time range is applied to the reference only (`cropRef`), exactly when `t_start` or `t_end` is given
(`0` included, finding F9) and the trajectories have timestamps, with the given bounds … -/
theorem apePlan_crop (o : CommonOpts) (steps : List Step) (h : apePlan o = .ok steps) (s e : Option Rat) :
    Step.cropRef s e ∈ steps ↔
      o.hasStamps = true ∧ (o.tStart.isSome = true ∨ o.tEnd.isSome = true) ∧ s = o.tStart ∧ e = o.tEnd := by
  obtain ⟨pre, hp, rfl⟩ := apePlan_ok_iff.mp h
  rw [List.append_assoc, mem_of_rank_lt (apeTail_rank o) (by simp [Step.rank])]
  exact mem_pre_crop_iff hp

/-- … and before the association: nothing after `associate` is a crop, and the association uses
`t_max_diff` and `t_offset` as given (sign included) -/
theorem apePlan_crop_on_ref_before_associate (o : CommonOpts) (steps l₁ l₂ : List Step) (m f : Rat)
    (h : apePlan o = .ok steps) (e : steps = l₁ ++ Step.associate m f :: l₂) :
    (∀ s t, Step.cropRef s t ∉ l₂) ∧ (∀ n, Step.downsample n ∉ l₂) ∧ (∀ d a, Step.motionFilter d a ∉ l₂) ∧
      m = o.tMaxDiff ∧ f = o.tOffset := by
  have hs := apePlan_order o steps h
  refine ⟨fun s t hm => ?_, fun n hm => ?_, fun d a hm => ?_, ?_⟩
  · have := rank_lt_of_split hs e hm; simp [Step.rank] at this
  · have := rank_lt_of_split hs e hm; simp [Step.rank] at this
  · have := rank_lt_of_split hs e hm; simp [Step.rank] at this
  · obtain ⟨pre, hp, rfl⟩ := apePlan_ok_iff.mp h
    have hm : Step.associate m f ∈ pre ++ [Step.metricApe o.rel] ++ unitPart o := by rw [e]; simp
    rw [List.append_assoc, mem_of_rank_lt (apeTail_rank o) (by simp [Step.rank])] at hm
    exact ((mem_pre_associate_iff hp).mp hm).2

/-- the projection comes after every alignment step -/
theorem apePlan_project_after_align (o : CommonOpts) (steps l₁ l₂ : List Step) (p : Plane)
    (h : apePlan o = .ok steps) (e : steps = l₁ ++ Step.project p :: l₂) :
    (∀ k n, Step.align k n ∉ l₂) ∧ Step.alignOrigin ∉ l₂ ∧ (∀ m f, Step.associate m f ∉ l₂) := by
  have hs := apePlan_order o steps h
  refine ⟨fun k n hm => ?_, fun hm => ?_, fun m f hm => ?_⟩
  · have := rank_lt_of_split hs e hm; simp [Step.rank] at this
  · have := rank_lt_of_split hs e hm; simp [Step.rank] at this
  · have := rank_lt_of_split hs e hm; simp [Step.rank] at this

/-- exactly one metric step, with the requested relation; `--t_start 0` is honoured -/
theorem apePlan_metric (o : CommonOpts) (steps : List Step) (h : apePlan o = .ok steps) :
    Step.metricApe o.rel ∈ steps ∧ (∀ r, Step.metricApe r ∈ steps → r = o.rel) ∧
      (o.hasStamps = true → o.tStart = some 0 → Step.cropRef (some 0) o.tEnd ∈ steps) := by
  refine ⟨?_, ?_, ?_⟩
  · obtain ⟨pre, hp, rfl⟩ := apePlan_ok_iff.mp h; simp
  · obtain ⟨pre, hp, rfl⟩ := apePlan_ok_iff.mp h
    intro r hr
    simp only [List.mem_append, List.mem_singleton] at hr
    rcases hr with (hr | hr) | hr
    · have := (prePlan_sorted hp).2 _ hr; simp [Step.rank] at this
    · injection hr
    · have := rank_unitPart hr; simp [Step.rank] at this
  · intro hst h0
    rw [apePlan_crop o steps h]
    exact ⟨hst, Or.inl (by rw [h0]; rfl), h0.symm, rfl⟩

/-- the plan is refused only for a motion filter on trajectories without timestamps -/
theorem apePlan_refusal (o : CommonOpts) :
    (∃ e, apePlan o = .error e) ↔ (o.motionFilter.isSome = true ∧ o.hasStamps = false) := by
  constructor
  · rintro ⟨e, he⟩
    by_contra hc
    have : prePlan o = .ok _ := prePlan_ok_iff.mpr ⟨hc, rfl⟩
    have := apePlan_ok_iff.mpr ⟨_, this, rfl⟩
    rw [he] at this; cases this
  · intro hc
    cases h : apePlan o with
    | error e => exact ⟨e, rfl⟩
    | ok steps =>
      obtain ⟨pre, hp, _⟩ := apePlan_ok_iff.mp h
      exact absurd hc (prePlan_ok_iff.mp hp).1

/-! ### evo_ape end to end inside the model (`Model/Pipeline.lean`)

`apeRun` executes the plan steps with the models of C11 (down-sampling, motion filter, time range),
C05 (association), C04/C03 (alignment), C14 (projection) on rational trajectories.  Parameters
(`Params`, from evo's own run, certified by the owning property): the Umeyama triple, the projected
directions, the accumulated distances / rotation angles the motion filter compares.  Computed: which
poses remain, how they are paired, the maps applied to them, every error core. -/

open Pipeline in
/-- **the stored error values are `apeCore` of exactly the remaining pose pairs.**  If `apeRun` returns
`res`: the selection phase (down-sampling, motion filter, time range on the reference, association)
yields two equally long lists `sel.1`, `sel.2` of *input* poses (each with its stamp and its index in
its input trajectory: `refIds`, `estIds`, `stamps` of the result); the processed reference is their
projection, processed estimate pose `k` is the projection of `T·alignPose(est_k)` (pose by pose:
`alignPose` from the Umeyama parameters, `T` the origin transformation); and the values are
`apeCore rel` of pair `k`, for every `k`, in order — one value per associated pair. -/
theorem apeRun_values_are_apeCore_of_remaining_pairs {o : CommonOpts} {P : Params} {ref est : Traj}
    {res : ApeResult} (h : apeRun o P ref est = .ok res) :
    ∃ (sel : List TPose × List TPose) (g : List (Pose Rat) × List (Pose Rat)),
      selectPairs o P ref est = .ok sel ∧
      (∀ x ∈ sel.1, ref.stamps[x.2.2]? = some x.1 ∧ ref.poses[x.2.2]? = some x.2.1) ∧
      (∀ x ∈ sel.2, est.stamps[x.2.2]? = some x.1 ∧ est.poses[x.2.2]? = some x.2.1) ∧
      res.refIds = idsOf sel.1 ∧ res.estIds = idsOf sel.2 ∧ res.stamps = stampsOf sel.2 ∧
      g.1 = projAll o.plane P.dirsRef (posesOf sel.1) ∧
      g.2 = projAll o.plane P.dirsEst (((posesOf sel.2).map (alignPose o P)).map
              (Pose.mul (originT o (posesOf sel.1) ((posesOf sel.2).map (alignPose o P))))) ∧
      res.values = List.zipWith (apeCore o.rel) g.1 g.2 ∧
      res.values.length = sel.1.length ∧ sel.1.length = sel.2.length := by
  unfold apeRun at h
  obtain ⟨sel, hsel, h⟩ := (bind_ok_iff _ _ _).mp h
  obtain ⟨g, hg, h⟩ := (bind_ok_iff _ _ _).mp h
  obtain ⟨vals, hv, h⟩ := (bind_ok_iff _ _ _).mp h
  obtain ⟨u, _, h⟩ := (bind_ok_iff _ _ _).mp h
  injection h with h; subst h
  obtain ⟨m1, m2⟩ := selectPairs_mem hsel
  obtain ⟨g1, g2, l1, l2⟩ := geometry_ok hg
  obtain ⟨hl, _, _, hz⟩ := ape_ok_iff.mp (liftMetric_ok.mp hv)
  have e1 : sel.1.length = g.1.length := by rw [l1]; simp [posesOf]
  have e2 : sel.2.length = g.2.length := by rw [l2]; simp [posesOf]
  refine ⟨sel, g, hsel, fun x hx => mem_tagTraj (m1 x hx), fun x hx => mem_tagTraj (m2 x hx), rfl, rfl, rfl,
    g1, g2, hz, ?_, ?_⟩
  · simp only [hz, List.length_zipWith, ← hl, Nat.min_self, e1]
  · rw [e1, e2, hl]

open Pipeline in
/-- with timestamps, the remaining pairs are C05's association of the (cropped) reference with the
estimate: index lists into those, every pair within `t_max_diff` after the offset (C05) -/
theorem apeRun_remaining_pairs_are_the_association {o : CommonOpts} {P : Params} {ref est : Traj}
    {sel : List TPose × List TPose} (h : selectPairs o P ref est = .ok sel) (hs : o.hasStamps = true) :
    ∃ r3 e2 ids1 ids2, (∀ x ∈ r3, x ∈ tagTraj ref) ∧ (∀ x ∈ e2, x ∈ tagTraj est) ∧
      Sync.associateIds (r3.map Prod.fst) (e2.map Prod.fst) o.tMaxDiff o.tOffset = .ok (ids1, ids2) ∧
      sel.1 = reduceIds r3 ids1 ∧ sel.2 = reduceIds e2 ids2 ∧ ids1.length = ids2.length ∧
      ∀ p ∈ List.zip ids1 ids2, ∃ (hi : p.1 < (r3.map Prod.fst).length) (hj : p.2 < (e2.map Prod.fst).length),
        absR ((r3.map Prod.fst)[p.1] - ((e2.map Prod.fst)[p.2] + o.tOffset)) ≤ o.tMaxDiff := by
  obtain ⟨r2, e2, r3, m1, m2, hc, ha⟩ := selectPairs_sync h hs
  obtain ⟨⟨ids1, ids2, hi, h1, h2⟩, _, _⟩ :=
    C05.associate_poses_are_input_poses r3 e2 o.tMaxDiff o.tOffset sel.1 sel.2 ha
  exact ⟨r3, e2, ids1, ids2, fun x hx => m1 x (stageCrop_mem hc x hx), m2, hi, h1, h2,
    C05.associate_equal_length _ _ _ _ _ _ hi, C05.associate_offset_both_orderings _ _ _ _ _ _ hi⟩

open Pipeline in
/-- **which refusals propagate**: `apeRun` fails exactly with the error of the first failing phase
(selection → geometry → metric → unit change); nothing is swallowed, nothing is added -/
theorem apeRun_refusals (o : CommonOpts) (P : Params) (ref est : Traj) (e : RunErr) :
    apeRun o P ref est = .error e ↔
      selectPairs o P ref est = .error e ∨
      ∃ sel, selectPairs o P ref est = .ok sel ∧
        (geometry o P (posesOf sel.1) (posesOf sel.2) = .error e ∨
         ∃ g, geometry o P (posesOf sel.1) (posesOf sel.2) = .ok g ∧
           (liftMetric (ape o.rel g.1 g.2) = .error e ∨
            ∃ v, liftMetric (ape o.rel g.1 g.2) = .ok v ∧ unitStep o.rel o.changeUnit = .error e)) := by
  unfold apeRun
  simp only [bind_error_iff]
  constructor
  · rintro (h | ⟨sel, hs, h | ⟨g, hg, h | ⟨v, hv, h | ⟨u, _, h⟩⟩⟩⟩)
    · exact Or.inl h
    · exact Or.inr ⟨sel, hs, Or.inl h⟩
    · exact Or.inr ⟨sel, hs, Or.inr ⟨g, hg, Or.inl h⟩⟩
    · exact Or.inr ⟨sel, hs, Or.inr ⟨g, hg, Or.inr ⟨v, hv, h⟩⟩⟩
    · cases h
  · rintro (h | ⟨sel, hs, h | ⟨g, hg, h | ⟨v, hv, h⟩⟩⟩)
    · exact Or.inl h
    · exact Or.inr ⟨sel, hs, Or.inl h⟩
    · exact Or.inr ⟨sel, hs, Or.inr ⟨g, hg, Or.inl h⟩⟩
    · exact Or.inr ⟨sel, hs, Or.inr ⟨g, hg, Or.inr ⟨v, hv, Or.inl h⟩⟩⟩

open Pipeline in
/-- the refusals by cause: unequal numbers of remaining poses → `MetricsException`; a relative rotation
outside the SO(3) tolerance under an angle relation → `LieAlgebraException`; an empty association →
`SyncException`; degenerate alignment input → `GeometryException` -/
theorem apeRun_refusal_causes (o : CommonOpts) (P : Params) (ref est : Traj)
    (sel : List TPose × List TPose) (g : List (Pose Rat) × List (Pose Rat))
    (hs : selectPairs o P ref est = .ok sel) (hg : geometry o P (posesOf sel.1) (posesOf sel.2) = .ok g) :
    (sel.1.length ≠ sel.2.length → apeRun o P ref est = .error .metrics) ∧
    (sel.1.length = sel.2.length → o.rel ≠ .ratio → o.rel.isAngle = true →
      (apeRots g.1 g.2).all isSo3Approx = false → apeRun o P ref est = .error .lie) := by
  obtain ⟨_, _, l1, l2⟩ := geometry_ok hg
  have e1 : g.1.length = sel.1.length := by rw [l1]; simp [posesOf]
  have e2 : g.2.length = sel.2.length := by rw [l2]; simp [posesOf]
  constructor
  · intro hne
    have : ape o.rel g.1 g.2 = .error .unequal := ape_refuses_unequal _ _ _ (by rw [e1, e2]; exact hne)
    unfold apeRun
    simp [hs, hg, this, Except.bind, liftMetric]
  · intro heq hr ha hbad
    have : ape o.rel g.1 g.2 = .error .notSO3 := by
      unfold ape
      rw [if_neg (by rw [e1, e2]; exact not_not.mpr heq), if_neg hr, if_pos ⟨ha, hbad⟩]
    unfold apeRun
    simp [hs, hg, this, Except.bind, liftMetric]

/-! ### non-vacuity: concrete instances of the hypotheses -/

/-- rotation by 90° about z -/
def rz : M3 Rat := ⟨0, -1, 0, 1, 0, 0, 0, 0, 1⟩
def pA : Pose Rat := ⟨rz, ⟨1, 2, 3⟩⟩
def pB : Pose Rat := ⟨M3.one, ⟨4, 6, 3⟩⟩

example : IsRot rz := ⟨by unfold IsOrtho; decide +kernel, by decide +kernel⟩
example : IsRigid pA ∧ IsRigid pB := by constructor <;> (unfold IsRigid IsOrtho; decide +kernel)
example : ape .trans [pA, pB] [pB, pB] = .ok [.sqrt 25, .sqrt 0] := by decide +kernel
example : ape .rot [pA] [pB] = .ok [.sqrt 4] := by decide +kernel
example : ape .full [pA] [pB] = .ok [.sqrt 29] := by decide +kernel
example : ape .angleDeg [pA] [pB] = .ok [.angle 0 1 true] := by decide +kernel
example : ape .trans [pA, pB] [pB] = .error .unequal := by decide +kernel
example : ape .ratio [pA] [pB] = .error .unsupported := by decide +kernel
/-- a block that is not a rotation is refused by the angle relations only -/
example : ape .angleRad [pA] [⟨M3.smul 2 rz, ⟨0, 0, 0⟩⟩] = .error .notSO3 := by decide +kernel
example : apeCore .full (pA.mul pA) (pA.mul pB) = apeCore .full pA pB := by decide +kernel

def optsFull : CommonOpts :=
  ⟨true, some 5, some (1/10, 5), some 0, none, 1/100, -1/2, false, true, 3, true, some .xy, .trans, some .mm⟩
example : apePlan optsFull = .ok [.downsample 5, .motionFilter (1/10) 5, .cropRef (some 0) none,
    .associate (1/100) (-1/2), .align .scaleOnly 3, .alignOrigin, .project .xy, .metricApe .trans, .changeUnit .mm] := by
  decide +kernel
example : apePlan { optsFull with hasStamps := false } = .error .filterNeedsStamps := by decide +kernel

/-- a complete run: 4 reference and 3 estimate poses, `--t_start 1/2 -s --align_origin`; the first reference
pose is cropped, the estimate stamped 1/100 late is associated, scale 2 and the origin transformation applied -/
def runRef : Pipeline.Traj := ⟨[0, 1, 2, 3], [⟨M3.one, ⟨0, 0, 0⟩⟩, ⟨M3.one, ⟨1, 0, 0⟩⟩, ⟨rz, ⟨2, 0, 0⟩⟩, ⟨rz, ⟨3, 1, 0⟩⟩]⟩
def runEst : Pipeline.Traj := ⟨[101/100, 201/100, 301/100], [⟨M3.one, ⟨5, 5, 0⟩⟩, ⟨rz, ⟨11/2, 5, 0⟩⟩, ⟨M3.one, ⟨6, 6, 0⟩⟩]⟩
def runPar : Pipeline.Params := ⟨355/113, ⟨[], #[]⟩, ⟨[], #[]⟩, M3.one, ⟨0, 0, 0⟩, 2, [], [], ⟨[], [], #[]⟩⟩
def runOpts : CommonOpts :=
  ⟨true, none, none, some (1/2), none, 1/50, 0, false, true, -1, true, none, .trans, none⟩
example : Pipeline.apeRun runOpts runPar runRef runEst
    = .ok ⟨[.sqrt 0, .sqrt 0, .sqrt 1], none, [1, 2, 3], [0, 1, 2], [101/100, 201/100, 301/100]⟩ := by decide +kernel
example : Pipeline.apeRun { runOpts with tMaxDiff := 1/1000 } runPar runRef runEst = .error .sync := by decide +kernel
example : Pipeline.apeRun { runOpts with hasStamps := false, correctScale := false } runPar runRef runEst = .error .metrics := by
  decide +kernel
/-- alignment of unequally long paths is refused by Umeyama first -/
example : Pipeline.apeRun { runOpts with hasStamps := false } runPar runRef runEst = .error .geometry := by decide +kernel

end Evo.C01
