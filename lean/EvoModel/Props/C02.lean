/-
C02 — RPE values equal the definition over exactly the selected pose pairs.

Model: `Model/Rpe.lean` (`rpeCore`, `rpe`, `rpePlan`), tied to `evo/core/metrics.py` (RPE),
`evo/main_rpe.py` by `harness/props/C02.py` on every run.  The pair selection itself
(`id_pairs_from_delta`) is property C10: `rpe` takes the selected pairs as an argument, and all
statements here hold for an arbitrary pair list.
-/
import EvoModel.Lemmas.Metrics
import EvoModel.Lemmas.MetricsReal
import EvoModel.Lemmas.Pipeline
namespace Evo.C02
open Evo

/-! ### one value per selected pair, ids aligned with values -/

/-- all selected pairs survive, except zero reference distances under the ratio relation -/
theorem rpe_kept (rel : PoseRelation) (ref : List (Pose Rat)) (pairs : List (Nat × Nat)) :
    (rel ≠ .ratio → keptPairs rel ref pairs = pairs) ∧
    (rel = .ratio → ∀ p, p.1 < ref.length → p.2 < ref.length →
      (p ∈ keptPairs rel ref pairs ↔ p ∈ pairs ∧ refDistSq ref[p.1]! ref[p.2]! ≠ 0)) := by
  constructor
  · intro h; unfold keptPairs; rw [if_neg h]
  · intro h p h1 h2
    unfold keptPairs
    rw [if_pos h, List.mem_filter]
    simp only [List.getElem?_eq_getElem h1, List.getElem?_eq_getElem h2, decide_eq_true_eq,
      getElem!_pos ref p.1 h1, getElem!_pos ref p.2 h2]

/-- values and `delta_ids` have the same length -/
theorem rpe_length_eq_delta_ids {rel : PoseRelation} {pairs : List (Nat × Nat)} {ref est : List (Pose Rat)}
    {r : RpeResult} (h : rpe rel pairs ref est = .ok r) :
    r.values.length = r.deltaIds.length ∧ r.values.length = (keptPairs rel ref pairs).length := by
  obtain ⟨hl, hidx, _, rfl⟩ := rpe_ok_iff.mp h
  have := rpe_values_eq_map rel hl hidx (keptPairs rel ref pairs) (fun p hp => (keptPairs_sublist rel ref pairs).subset hp)
  simp only [this, List.length_map, and_self]

/-- `delta_ids` are the end indices `j` of the surviving pairs, in the order of the pair list
(also after the zero filter of the ratio relation) -/
theorem rpe_delta_ids_are_pair_ends {rel : PoseRelation} {pairs : List (Nat × Nat)} {ref est : List (Pose Rat)}
    {r : RpeResult} (h : rpe rel pairs ref est = .ok r) :
    r.deltaIds = (keptPairs rel ref pairs).map Prod.snd ∧ (keptPairs rel ref pairs).Sublist pairs ∧
      (rel ≠ .ratio → r.deltaIds = pairs.map Prod.snd) := by
  obtain ⟨_, _, _, rfl⟩ := rpe_ok_iff.mp h
  refine ⟨rfl, keptPairs_sublist rel ref pairs, fun hne => ?_⟩
  simp only [(rpe_kept rel ref pairs).1 hne]

/-- value `k` is the definition applied to the `k`-th surviving pair `(i, j)`:
the relative motions `i → j` of reference and estimate -/
theorem rpe_get {rel : PoseRelation} {pairs : List (Nat × Nat)} {ref est : List (Pose Rat)}
    {r : RpeResult} (h : rpe rel pairs ref est = .ok r) (k : Nat) (hk : k < (keptPairs rel ref pairs).length) :
    let p := (keptPairs rel ref pairs)[k]
    r.values[k]? = some (rpeCore rel ref[p.1]! ref[p.2]! est[p.1]! est[p.2]!) ∧ r.deltaIds[k]? = some p.2 := by
  obtain ⟨hl, hidx, _, rfl⟩ := rpe_ok_iff.mp h
  intro p
  have hmap := rpe_values_eq_map rel hl hidx (keptPairs rel ref pairs) (fun p hp => (keptPairs_sublist rel ref pairs).subset hp)
  constructor
  · simp only [hmap, List.getElem?_map, List.getElem?_eq_getElem hk, Option.map_some, p]
  · simp only [List.getElem?_map, List.getElem?_eq_getElem hk, Option.map_some, p]

/-- the definitions, relation by relation: `E = (Q_i⁻¹ Q_j)⁻¹ (P_i⁻¹ P_j)` reduced like APE; the
point-distance relations compare the straight-line distances of the positions -/
theorem rpeCore_definition (Qi Qj Pi Pj : Pose Rat) :
    let E := Pose.rel (Pose.rel Qi Qj) (Pose.rel Pi Pj)
    rpeCore .trans Qi Qj Pi Pj = .sqrt (V3.normSq E.t) ∧
    rpeCore .rot Qi Qj Pi Pj = .sqrt (M3.frobSq (M3.sub E.rot M3.one)) ∧
    rpeCore .full Qi Qj Pi Pj = .sqrt (M3.frobSq (M3.sub E.rot M3.one) + V3.normSq E.t) ∧
    rpeCore .angleRad Qi Qj Pi Pj = .angle E.rot.angleCore.1 E.rot.angleCore.2 false ∧
    rpeCore .angleDeg Qi Qj Pi Pj = .angle E.rot.angleCore.1 E.rot.angleCore.2 true ∧
    rpeCore .pointDist Qi Qj Pi Pj = .sqrtDiff (V3.normSq (V3.sub Qi.t Qj.t)) (V3.normSq (V3.sub Pi.t Pj.t)) ∧
    rpeCore .ratio Qi Qj Pi Pj = .sqrtRatio (V3.normSq (V3.sub Qi.t Qj.t)) (V3.normSq (V3.sub Pi.t Pj.t)) :=
  ⟨rfl, rfl, rfl, rfl, rfl, rfl, rfl⟩

/-- sequences of different length are refused -/
theorem rpe_refuses_unequal (rel : PoseRelation) (pairs : List (Nat × Nat)) (ref est : List (Pose Rat))
    (h : ref.length ≠ est.length) : rpe rel pairs ref est = .error .unequal := by
  unfold rpe; rw [if_pos h]

/-- the ratio relation skips exactly the pairs with reference distance zero — values and ids alike,
the others keep their order -/
theorem rpe_ratio_skips_exactly_zero_ref {pairs : List (Nat × Nat)} {ref est : List (Pose Rat)} {r : RpeResult}
    (h : rpe .ratio pairs ref est = .ok r) :
    r.deltaIds = (pairs.filter fun p => decide (refDistSq ref[p.1]! ref[p.2]! ≠ 0)).map Prod.snd ∧
    r.values.length = (pairs.filter fun p => decide (refDistSq ref[p.1]! ref[p.2]! ≠ 0)).length := by
  have hlen := (rpe_length_eq_delta_ids h).2
  obtain ⟨_, hidx, _, rfl⟩ := rpe_ok_iff.mp h
  have hk : keptPairs .ratio ref pairs = pairs.filter fun p => decide (refDistSq ref[p.1]! ref[p.2]! ≠ 0) := by
    unfold keptPairs
    rw [if_pos rfl]
    apply List.filter_congr
    intro p hp
    have hp' := hidx p hp
    simp only [List.getElem?_eq_getElem hp'.1, List.getElem?_eq_getElem hp'.2, getElem!_pos ref p.1 hp'.1,
      getElem!_pos ref p.2 hp'.2]
  rw [hk] at hlen ⊢
  exact ⟨rfl, hlen⟩

/-! ### drift independence and zero -/

/-- arbitrary, different rigid motions of reference and estimate change no value -/
theorem rpe_invariant_separate_motions (rel : PoseRelation) (Tq Tp Qi Qj Pi Pj : Pose Rat)
    (hq : IsRigid Tq) (hp : IsRigid Tp) :
    rpeCore rel (Tq.mul Qi) (Tq.mul Qj) (Tp.mul Pi) (Tp.mul Pj) = rpeCore rel Qi Qj Pi Pj :=
  rpeCore_separate_motions rel hq hp Qi Qj Pi Pj

/-- … for whole trajectories and any pair list, including refusals and the zero filter -/
theorem rpe_invariant_separate_motions_list (rel : PoseRelation) (Tq Tp : Pose Rat) (hq : IsRigid Tq)
    (hp : IsRigid Tp) (pairs : List (Nat × Nat)) (ref est : List (Pose Rat)) :
    rpe rel pairs (ref.map Tq.mul) (est.map Tp.mul) = rpe rel pairs ref est := by
  have hpp : ∀ p, pairPoses (ref.map Tq.mul) (est.map Tp.mul) p
      = (pairPoses ref est p).map fun (qi, qj, pi, pj) => (Tq.mul qi, Tq.mul qj, Tp.mul pi, Tp.mul pj) := by
    intro p
    simp only [pairPoses, List.getElem?_map]
    cases ref[p.1]? <;> cases ref[p.2]? <;> cases est[p.1]? <;> cases est[p.2]? <;> rfl
  have hcore : ∀ p, pairCore rel (ref.map Tq.mul) (est.map Tp.mul) p = pairCore rel ref est p := by
    intro p
    simp only [pairCore, hpp, Option.map_map]
    congr 1
    funext ⟨qi, qj, pi, pj⟩
    exact rpeCore_separate_motions rel hq hp qi qj pi pj
  have hrots : rpeRots (ref.map Tq.mul) (est.map Tp.mul) pairs = rpeRots ref est pairs := by
    unfold rpeRots
    congr 1
    funext p
    simp only [hpp, Option.map_map]
    congr 1
    funext ⟨qi, qj, pi, pj⟩
    simp only [Function.comp, rpeBase, Pose.rel_left_invariant Tq qi qj hq, Pose.rel_left_invariant Tp pi pj hp]
  have hkept : keptPairs rel (ref.map Tq.mul) pairs = keptPairs rel ref pairs := by
    unfold keptPairs
    split
    · apply List.filter_congr
      intro p _
      simp only [List.getElem?_map]
      cases ref[p.1]? <;> cases ref[p.2]? <;> simp only [Option.map_some, Option.map_none, refDistSq_mul_left hq]
    · rfl
  unfold rpe
  simp only [hrots, hkept, List.length_map, funext hcore]

/-- the same relative motions give error zero -/
theorem rpe_zero_of_same_relative_motion (rel : PoseRelation) (Qi Qj Pi Pj : Pose Rat)
    (hQi : IsRigid Qi) (hQj : IsRigid Qj) (hPi : IsRigid Pi) (h : Qi.rel Qj = Pi.rel Pj) :
    (rpeCore rel Qi Qj Pi Pj).IsZero :=
  rpeCore_same_relative_motion rel hQi hQj hPi h

/-- in particular when the estimate is the reference moved by one rigid motion -/
theorem rpe_zero_of_moved_copy (rel : PoseRelation) (T Qi Qj : Pose Rat) (hT : IsRigid T)
    (hQi : IsRigid Qi) (hQj : IsRigid Qj) : (rpeCore rel Qi Qj (T.mul Qi) (T.mul Qj)).IsZero :=
  rpeCore_same_relative_motion rel hQi hQj (IsRigid.mul hT hQi) (Pose.rel_left_invariant T Qi Qj hT).symm

/-- the laws for the reported real numbers (ℝ-valued poses) -/
theorem rpe_value_real_laws (rel : PoseRelation) (Tq Tp Qi Qj Pi Pj : Pose ℝ) (hq : IsRigid Tq) (hp : IsRigid Tp)
    (hQi : IsRigid Qi) (hQj : IsRigid Qj) :
    (rpeCore rel (Tq.mul Qi) (Tq.mul Qj) (Tp.mul Pi) (Tp.mul Pj)).value = (rpeCore rel Qi Qj Pi Pj).value ∧
    (rpeCore rel Qi Qj (Tp.mul Qi) (Tp.mul Qj)).value = 0 ∧ 0 ≤ (rpeCore rel Qi Qj Pi Pj).value :=
  ⟨by rw [rpeCore_separate_motions rel hq hp],
   Core.value_of_isZero (rpeCore_same_relative_motion rel hQi hQj (IsRigid.mul hp hQi)
     (Pose.rel_left_invariant Tp Qi Qj hp).symm),
   Core.value_nonneg _⟩

/-- casting the rational core to ℝ is the core of the cast poses -/
theorem rpe_core_cast (rel : PoseRelation) (Qi Qj Pi Pj : Pose Rat) :
    (rpeCore rel Qi Qj Pi Pj).map (fun q : Rat => (q : ℝ))
      = rpeCore rel (Qi.map (fun q : Rat => (q : ℝ))) (Qj.map (fun q : Rat => (q : ℝ)))
          (Pi.map (fun q : Rat => (q : ℝ))) (Pj.map (fun q : Rat => (q : ℝ))) :=
  rpeCore_map_cast rel Qi Qj Pi Pj

/-! ### evo_rpe: option → step wiring -/

theorem rpePlan_order (o : RpeOpts) (steps : List Step) (h : rpePlan o = .ok steps) :
    (steps.map Step.rank).Pairwise (· < ·) := by
  obtain ⟨pre, hp, rfl⟩ := rpePlan_ok_iff.mp h
  obtain ⟨hs, hlt⟩ := prePlan_sorted hp
  simp only [List.map_append, List.pairwise_append, List.mem_append, List.mem_map, List.map_cons, List.map_nil,
    List.mem_singleton]
  refine ⟨⟨⟨hs, List.pairwise_singleton _ _, ?_⟩, pairwise_rank_single _ (length_unitPart o.common), ?_⟩,
    List.pairwise_singleton _ _, ?_⟩
  · rintro a ⟨s, hs, rfl⟩ b rfl
    exact hlt s hs
  · rintro a (⟨s, hs, rfl⟩ | rfl) b ⟨t, ht, rfl⟩ <;> rw [rank_unitPart ht]
    · exact Nat.lt_trans (hlt s hs) (by decide)
    · simp [Step.rank]
  · rintro a ((⟨s, hs, rfl⟩ | rfl) | ⟨s, hs, rfl⟩) b rfl
    · exact Nat.lt_trans (hlt s hs) (by decide)
    · simp [Step.rank]
    · rw [rank_unitPart hs]; decide

/-- the metric is computed with the options as given, the stored trajectories are reduced to pose 0 and
the pair ends as the very last step (after the unit change) -/
theorem rpePlan_reduces_to_first_and_pair_ends (o : RpeOpts) (steps : List Step) (h : rpePlan o = .ok steps) :
    steps.getLast? = some .reduceToFirstAndPairEnds ∧
    Step.metricRpe o.common.rel o.delta o.deltaUnit o.deltaTol o.allPairs o.pairsFromReference ∈ steps ∧
    (∀ r d u t a f, Step.metricRpe r d u t a f ∈ steps →
      r = o.common.rel ∧ d = o.delta ∧ u = o.deltaUnit ∧ t = o.deltaTol ∧ a = o.allPairs ∧ f = o.pairsFromReference) := by
  obtain ⟨pre, hp, rfl⟩ := rpePlan_ok_iff.mp h
  refine ⟨List.getLast?_concat .., by simp, ?_⟩
  intro r d u t a f hm
  simp only [List.mem_append, List.mem_singleton] at hm
  rcases hm with ((hm | hm) | hm) | hm
  · have := (prePlan_sorted hp).2 _ hm; simp [Step.rank] at this
  · injection hm with h1 h2 h3 h4 h5 h6; exact ⟨h1, h2, h3, h4, h5, h6⟩
  · have := rank_unitPart hm; simp [Step.rank] at this
  · cases hm

theorem rpePlan_align (o : RpeOpts) (steps : List Step) (h : rpePlan o = .ok steps) (k : AlignKind) (n : Int) :
    Step.align k n ∈ steps ↔ alignKind o.common.align o.common.correctScale = some k ∧ n = o.common.nToAlign := by
  obtain ⟨pre, hp, rfl⟩ := rpePlan_ok_iff.mp h
  rw [List.append_assoc, List.append_assoc, mem_of_rank_lt (rpeTail_rank o) (by simp [Step.rank])]
  exact mem_pre_align_iff hp

theorem rpePlan_onlyScale (o : RpeOpts) (steps : List Step) (h : rpePlan o = .ok steps) (n : Int) :
    Step.align .scaleOnly n ∈ steps ↔ (o.common.correctScale = true ∧ o.common.align = false) ∧ n = o.common.nToAlign := by
  rw [rpePlan_align o steps h]
  have : alignKind o.common.align o.common.correctScale = some .scaleOnly ↔
      (o.common.correctScale = true ∧ o.common.align = false) := by
    cases o.common.align <;> cases o.common.correctScale <;> decide
  rw [this]

theorem rpePlan_crop (o : RpeOpts) (steps : List Step) (h : rpePlan o = .ok steps) (s e : Option Rat) :
    Step.cropRef s e ∈ steps ↔ o.common.hasStamps = true ∧
      (o.common.tStart.isSome = true ∨ o.common.tEnd.isSome = true) ∧ s = o.common.tStart ∧ e = o.common.tEnd := by
  obtain ⟨pre, hp, rfl⟩ := rpePlan_ok_iff.mp h
  rw [List.append_assoc, List.append_assoc, mem_of_rank_lt (rpeTail_rank o) (by simp [Step.rank])]
  exact mem_pre_crop_iff hp

theorem rpePlan_crop_on_ref_before_associate (o : RpeOpts) (steps l₁ l₂ : List Step) (m f : Rat)
    (h : rpePlan o = .ok steps) (e : steps = l₁ ++ Step.associate m f :: l₂) :
    (∀ s t, Step.cropRef s t ∉ l₂) ∧ (∀ n, Step.downsample n ∉ l₂) ∧ (∀ d a, Step.motionFilter d a ∉ l₂) ∧
      m = o.common.tMaxDiff ∧ f = o.common.tOffset := by
  have hs := rpePlan_order o steps h
  refine ⟨fun s t hm => ?_, fun n hm => ?_, fun d a hm => ?_, ?_⟩
  · have := rank_lt_of_split hs e hm; simp [Step.rank] at this
  · have := rank_lt_of_split hs e hm; simp [Step.rank] at this
  · have := rank_lt_of_split hs e hm; simp [Step.rank] at this
  · obtain ⟨pre, hp, rfl⟩ := rpePlan_ok_iff.mp h
    have hm : Step.associate m f ∈ pre ++ [Step.metricRpe o.common.rel o.delta o.deltaUnit o.deltaTol o.allPairs
        o.pairsFromReference] ++ unitPart o.common ++ [Step.reduceToFirstAndPairEnds] := by rw [e]; simp
    rw [List.append_assoc, List.append_assoc, mem_of_rank_lt (rpeTail_rank o) (by simp [Step.rank])] at hm
    exact ((mem_pre_associate_iff hp).mp hm).2

theorem rpePlan_project_after_align (o : RpeOpts) (steps l₁ l₂ : List Step) (p : Plane)
    (h : rpePlan o = .ok steps) (e : steps = l₁ ++ Step.project p :: l₂) :
    (∀ k n, Step.align k n ∉ l₂) ∧ Step.alignOrigin ∉ l₂ ∧ (∀ m f, Step.associate m f ∉ l₂) := by
  have hs := rpePlan_order o steps h
  refine ⟨fun k n hm => ?_, fun hm => ?_, fun m f hm => ?_⟩
  · have := rank_lt_of_split hs e hm; simp [Step.rank] at this
  · have := rank_lt_of_split hs e hm; simp [Step.rank] at this
  · have := rank_lt_of_split hs e hm; simp [Step.rank] at this

/-! ### evo_rpe end to end inside the model (`Model/Pipeline.lean`)

As `apeRun` (see `Props/C01.lean`) up to the processed trajectories; then the pairs are chosen by C10's
`Pairs.idPairsFromDelta` on the processed reference or estimate.  Additional parameters: the step
lengths and relative rotation angles that the pair selection compares (`Params.pairs`, C10 conventions). -/

open Pipeline in
/-- **evo_rpe stores `rpeCore` of the pairs chosen on the processed trajectories.**  If `rpeRun` returns
`res`: `sel` are the remaining input poses (with stamps and input indices), `g` the processed
trajectories (pose by pose as for APE), `pairs` is `idPairsFromDelta` (C10) on the processed driving
trajectory, `(res.values, res.deltaIds)` is `rpe` of the model on them: `delta_ids` are the ends `j` of
the surviving pairs in order, one value per surviving pair; `refPairIds` / `estPairIds` name the input
poses of each pair and `stamps` are the estimate stamps at the pair ends. -/
theorem rpeRun_values_are_rpeCore_of_selected_pairs {o : RpeOpts} {P : Params} {ref est : Traj}
    {res : RpeRunResult} (h : rpeRun o P ref est = .ok res) :
    ∃ (sel : List TPose × List TPose) (g : List (Pose Rat) × List (Pose Rat)) (pairs : List (Nat × Nat)),
      selectPairs o.common P ref est = .ok sel ∧
      (∀ x ∈ sel.1, ref.stamps[x.2.2]? = some x.1 ∧ ref.poses[x.2.2]? = some x.2.1) ∧
      (∀ x ∈ sel.2, est.stamps[x.2.2]? = some x.1 ∧ est.poses[x.2.2]? = some x.2.1) ∧
      g.1 = projAll o.common.plane P.dirsRef (posesOf sel.1) ∧
      g.2 = projAll o.common.plane P.dirsEst (((posesOf sel.2).map (alignPose o.common P)).map
              (Pose.mul (originT o.common (posesOf sel.1) ((posesOf sel.2).map (alignPose o.common P))))) ∧
      g.1.length = sel.1.length ∧ g.2.length = sel.2.length ∧ sel.1.length = sel.2.length ∧
      Pairs.idPairsFromDelta
        ⟨(if o.pairsFromReference then g.1.length else g.2.length), P.pairs.steps, P.pairs.cang,
         triAng (if o.pairsFromReference then g.1.length else g.2.length) P.pairs.tri, P.pi⟩
        o.delta (dunitOf o.deltaUnit) o.deltaTol o.allPairs = .ok pairs ∧
      rpe o.common.rel pairs g.1 g.2 = .ok ⟨res.values, res.deltaIds⟩ ∧
      res.deltaIds = (keptPairs o.common.rel g.1 pairs).map Prod.snd ∧
      res.values.length = res.deltaIds.length ∧
      res.refPairIds = (keptPairs o.common.rel g.1 pairs).map (pickPair (idsOf sel.1)) ∧
      res.estPairIds = (keptPairs o.common.rel g.1 pairs).map (pickPair (idsOf sel.2)) ∧
      res.stamps = reduceIds (stampsOf sel.2) res.deltaIds := by
  unfold rpeRun at h
  obtain ⟨sel, hsel, h⟩ := (bind_ok_iff _ _ _).mp h
  obtain ⟨g, hg, h⟩ := (bind_ok_iff _ _ _).mp h
  obtain ⟨pairs, hp, h⟩ := (bind_ok_iff _ _ _).mp h
  obtain ⟨r, hr, h⟩ := (bind_ok_iff _ _ _).mp h
  obtain ⟨u, _, h⟩ := (bind_ok_iff _ _ _).mp h
  simp only at h
  split at h
  · cases h
  injection h with h; subst h
  obtain ⟨m1, m2⟩ := selectPairs_mem hsel
  obtain ⟨g1, g2, l1, l2⟩ := geometry_ok hg
  obtain ⟨_, hl, hid⟩ := selectIdPairs_ok hp
  have hr' := liftMetric_ok.mp hr
  have e1 : g.1.length = sel.1.length := by rw [l1]; simp [posesOf]
  have e2 : g.2.length = sel.2.length := by rw [l2]; simp [posesOf]
  refine ⟨sel, g, pairs, hsel, fun x hx => mem_tagTraj (m1 x hx), fun x hx => mem_tagTraj (m2 x hx), g1, g2, e1, e2,
    by rw [← e1, ← e2, hl], hid, hr', (rpe_delta_ids_are_pair_ends hr').1, (rpe_length_eq_delta_ids hr').1, rfl, rfl, rfl⟩

open Pipeline in
/-- **which refusals propagate**: `rpeRun` fails exactly with the error of the first failing phase
(selection → geometry → pair selection incl. the `RPE.__init__` checks → metric → unit change) -/
theorem rpeRun_refusals (o : RpeOpts) (P : Params) (ref est : Traj) (e : RunErr) :
    rpeRun o P ref est = .error e ↔
      selectPairs o.common P ref est = .error e ∨
      ∃ sel, selectPairs o.common P ref est = .ok sel ∧
        (geometry o.common P (posesOf sel.1) (posesOf sel.2) = .error e ∨
         ∃ g, geometry o.common P (posesOf sel.1) (posesOf sel.2) = .ok g ∧
           (selectIdPairs o P g.1 g.2 = .error e ∨
            ∃ pairs, selectIdPairs o P g.1 g.2 = .ok pairs ∧
              (liftMetric (rpe o.common.rel pairs g.1 g.2) = .error e ∨
               ∃ r, liftMetric (rpe o.common.rel pairs g.1 g.2) = .ok r ∧
                 (unitStep o.common.rel o.common.changeUnit = .error e ∨
                  ((∃ u, unitStep o.common.rel o.common.changeUnit = .ok u) ∧ r.values.isEmpty = true ∧
                    e = .valueError))))) := by
  unfold rpeRun
  simp only [bind_error_iff]
  constructor
  · rintro (h | ⟨sel, hs, h | ⟨g, hg, h | ⟨ps, hp, h | ⟨r, hr, h | ⟨u, hu, h⟩⟩⟩⟩⟩)
    · exact Or.inl h
    · exact Or.inr ⟨sel, hs, Or.inl h⟩
    · exact Or.inr ⟨sel, hs, Or.inr ⟨g, hg, Or.inl h⟩⟩
    · exact Or.inr ⟨sel, hs, Or.inr ⟨g, hg, Or.inr ⟨ps, hp, Or.inl h⟩⟩⟩
    · exact Or.inr ⟨sel, hs, Or.inr ⟨g, hg, Or.inr ⟨ps, hp, Or.inr ⟨r, hr, Or.inl h⟩⟩⟩⟩
    · split at h
      · next he =>
        injection h with h
        exact Or.inr ⟨sel, hs, Or.inr ⟨g, hg, Or.inr ⟨ps, hp, Or.inr ⟨r, hr, Or.inr ⟨⟨u, hu⟩, he, h.symm⟩⟩⟩⟩⟩
      · cases h
  · rintro (h | ⟨sel, hs, h | ⟨g, hg, h | ⟨ps, hp, h | ⟨r, hr, h | ⟨⟨u, hu⟩, he, rfl⟩⟩⟩⟩⟩)
    · exact Or.inl h
    · exact Or.inr ⟨sel, hs, Or.inl h⟩
    · exact Or.inr ⟨sel, hs, Or.inr ⟨g, hg, Or.inl h⟩⟩
    · exact Or.inr ⟨sel, hs, Or.inr ⟨g, hg, Or.inr ⟨ps, hp, Or.inl h⟩⟩⟩
    · exact Or.inr ⟨sel, hs, Or.inr ⟨g, hg, Or.inr ⟨ps, hp, Or.inr ⟨r, hr, Or.inl h⟩⟩⟩⟩
    · refine Or.inr ⟨sel, hs, Or.inr ⟨g, hg, Or.inr ⟨ps, hp, Or.inr ⟨r, hr, Or.inr ⟨u, hu, ?_⟩⟩⟩⟩⟩
      show (if r.values.isEmpty = true then _ else _) = _
      rw [if_pos he]

open Pipeline in
/-- an empty pair selection (C10: `FilterException`), a negative or non-integral frame delta, and unequal
numbers of remaining poses (`MetricsException`) are refused before any value is computed -/
theorem rpeRun_pair_selection_refusals (o : RpeOpts) (P : Params) (gr ge : List (Pose Rat)) :
    (rpeCtorOk o.delta o.deltaUnit = false → selectIdPairs o P gr ge = .error .metrics) ∧
    (rpeCtorOk o.delta o.deltaUnit = true → gr.length ≠ ge.length → selectIdPairs o P gr ge = .error .metrics) := by
  constructor
  · intro h; unfold selectIdPairs; simp [h]
  · intro h hl; unfold selectIdPairs; simp [h, hl]

/-! ### non-vacuity -/

def rz : M3 Rat := ⟨0, -1, 0, 1, 0, 0, 0, 0, 1⟩
def q0 : Pose Rat := ⟨M3.one, ⟨0, 0, 0⟩⟩
def q1 : Pose Rat := ⟨rz, ⟨3, 4, 0⟩⟩
def q2 : Pose Rat := ⟨rz, ⟨3, 4, 0⟩⟩       -- stationary: same position as q1
def q3 : Pose Rat := ⟨rz, ⟨3, 4, 12⟩⟩
def p0 : Pose Rat := ⟨M3.one, ⟨0, 0, 0⟩⟩
def p1 : Pose Rat := ⟨rz, ⟨6, 8, 0⟩⟩
def p2 : Pose Rat := ⟨M3.one, ⟨6, 8, 1⟩⟩
def p3 : Pose Rat := ⟨rz, ⟨6, 8, 13⟩⟩

example : IsRigid q1 ∧ IsRigid p2 := by constructor <;> (unfold IsRigid IsOrtho; decide +kernel)
example : rpe .pointDist [(0, 1), (1, 2), (2, 3)] [q0, q1, q2, q3] [p0, p1, p2, p3]
    = .ok ⟨[.sqrtDiff 25 100, .sqrtDiff 0 1, .sqrtDiff 144 144], [1, 2, 3]⟩ := by decide +kernel
/-- the stationary reference pair (1, 2) is skipped by the ratio relation, values and ids alike -/
example : rpe .ratio [(0, 1), (1, 2), (2, 3)] [q0, q1, q2, q3] [p0, p1, p2, p3]
    = .ok ⟨[.sqrtRatio 25 100, .sqrtRatio 144 144], [1, 3]⟩ := by decide +kernel
example : rpe .rot [(1, 2)] [q0, q1, q2, q3] [p0, p1, p2, p3] = .ok ⟨[.sqrt 4], [2]⟩ := by decide +kernel
example : rpe .trans [(0, 1)] [q0, q1] [p0] = .error .unequal := by decide +kernel
example : rpe .trans [(0, 5)] [q0, q1] [p0, p1] = .error .badIndex := by decide +kernel
example : rpeCore .full (q1.mul q0) (q1.mul q3) (p2.mul p1) (p2.mul p3) = rpeCore .full q0 q3 p1 p3 := by
  decide +kernel

def optsR : RpeOpts :=
  ⟨⟨true, none, none, none, some 0, 1/100, 1/2, true, true, -1, false, none, .ratio, none⟩, 1, .frames, 1/10, false, true⟩
example : rpePlan optsR = .ok [.cropRef none (some 0), .associate (1/100) (1/2), .align .sim3 (-1),
    .metricRpe .ratio 1 .frames (1/10) false true, .reduceToFirstAndPairEnds] := by decide +kernel

/-- a complete run: frames delta 1 on 4 associated poses, ratio relation: the stationary reference pair is skipped -/
def runRef : Pipeline.Traj := ⟨[0, 1, 2, 3], [q0, q1, q2, q3]⟩
def runEst : Pipeline.Traj := ⟨[1/100, 101/100, 201/100, 301/100], [p0, p1, p2, p3]⟩
def runPar : Pipeline.Params := ⟨355/113, ⟨[], #[]⟩, ⟨[], #[]⟩, M3.one, ⟨0, 0, 0⟩, 1, [], [], ⟨[5, 0, 12], [1, 0, 0], #[]⟩⟩
def runOpts : RpeOpts :=
  ⟨⟨true, none, none, none, none, 1/50, 0, false, false, -1, false, none, .ratio, none⟩, 1, .frames, 1/10, false, true⟩
example : Pipeline.rpeRun runOpts runPar runRef runEst
    = .ok ⟨[.sqrtRatio 25 100, .sqrtRatio 144 144], none, [1, 3], [(0, 1), (2, 3)], [(0, 1), (2, 3)], [101/100, 301/100]⟩ := by
  decide +kernel
example : Pipeline.rpeRun { runOpts with delta := 7 } runPar runRef runEst = .error .filter := by decide +kernel
/-- all reference distances of the chosen pairs zero (pair (1,2) only): nothing is left, evo_rpe ends in numpy's
`ValueError` (statistics of an empty array) instead of storing a result -/
example : Pipeline.rpeRun runOpts { runPar with pairs := ⟨[5], [1], #[]⟩ } ⟨[1, 2], [q1, q2]⟩ ⟨[101/100, 201/100], [p1, p2]⟩
    = .error .valueError := by decide +kernel
example : Pipeline.rpeRun { runOpts with delta := 3/2 } runPar runRef runEst = .error .metrics := by decide +kernel

end Evo.C02
