import EvoModel.Model.Rpe
import EvoModel.Lemmas.Lin
namespace Evo.C02
open Evo

theorem rpe_refuses_unequal (rel : PoseRelation) (pairs : List (Nat × Nat)) (ref est : List (Pose Rat))
    (h : ref.length ≠ est.length) : rpe rel pairs ref est = .error .unequal := by
  unfold rpe; simp [h]

end Evo.C02
