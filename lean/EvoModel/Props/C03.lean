/-
C03 — Umeyama alignment returns a proper rotation that is least-squares optimal.

`numpy.linalg.svd` is not modelled. The theorems say: *every* output `(R, t, c)` that passes the
executable certificate `Ume.umeCert 0` (Model/Umeyama.lean) for the inputs `x`, `y` is a proper
rotation, has positive scale (exactly 1 without scale estimation) and minimises the sum of
squared residuals over all proper rotations, translations (and scales); the driver evaluates
`umeCert ε` (ε = 2⁻³⁰) on evo's actual output on every run. Helper lemmas: Lemmas/TraceMax.lean,
Lemmas/Umeyama.lean (both valid over every ordered field).
-/
import EvoModel.Lemmas.Umeyama
namespace Evo.C03
open Evo Evo.Ume

/-- **completing the square** (ℚ instance of `Ume.resid_decomp`):
`Σ‖y_i − (cRx_i + t)‖² = n(σ_y² + c²σ_x² − 2c·tr(Rᵀcov)) + n‖t − (μ_y − cRμ_x)‖²` -/
theorem resid_decomp (x y : List (V3 Rat)) (R : M3 Rat) (t : V3 Rat) (c : Rat)
    (hlen : x.length = y.length) (hne : x ≠ []) (hR : IsOrtho R) :
    resid x y R t c = cnt x * (var y + c^2 * var x - 2 * c * (amat x y R).trace)
      + cnt x * V3.normSq (V3.sub t (tFormula x y R c)) :=
  Ume.resid_decomp x y R t c hlen (cnt_pos x hne).ne' hR

/-- **the core**: under the certificate, `tr(R'ᵀ·cov) ≤ tr(Rᵀ·cov)` for every proper rotation `R'` -/
theorem traceMax_of_cert (ws : Bool) (x y : List (V3 Rat)) (R : M3 Rat) (t : V3 Rat) (c : Rat)
    (h : umeCert 0 ws x y R t c = true) (R' : M3 Rat) (hR' : IsRot R') :
    (amat x y R').trace ≤ (amat x y R).trace :=
  Ume.traceMax_of_cert (cert_of_umeCert h) R' hR'

/-- **proper rotation**: orthonormal with determinant `+1`, never a reflection -/
theorem umeyama_proper (ws : Bool) (x y : List (V3 Rat)) (R : M3 Rat) (t : V3 Rat) (c : Rat)
    (h : umeCert 0 ws x y R t c = true) :
    R.transpose.mul R = M3.one ∧ R.det = 1 :=
  (cert_of_umeCert h).rot

/-- **positive scale, exactly 1 when scale estimation is off** -/
theorem umeyama_scale_pos (ws : Bool) (x y : List (V3 Rat)) (R : M3 Rat) (t : V3 Rat) (c : Rat)
    (h : umeCert 0 ws x y R t c = true) : 0 < c ∧ (ws = false → c = 1) := by
  have hs := (cert_of_umeCert h).scale
  cases ws with
  | true => simp only [if_true] at hs; exact ⟨hs.2, by simp⟩
  | false =>
    simp only [Bool.false_eq_true, if_false] at hs
    exact ⟨by rw [hs]; exact one_pos, fun _ => hs⟩

/-- **least-squares optimal among rigid transformations** (scale estimation off) -/
theorem umeyama_optimal_rigid (x y : List (V3 Rat)) (R : M3 Rat) (t : V3 Rat) (c : Rat)
    (h : umeCert 0 false x y R t c = true) (hlen : x.length = y.length) (hne : x ≠ [])
    (R' : M3 Rat) (t' : V3 Rat) (hR' : IsRot R') :
    resid x y R t c ≤ resid x y R' t' 1 :=
  optimal_rigid (cert_of_umeCert h) hlen hne R' t' hR'

/-- **least-squares optimal among similarity transformations** (scale estimation on): every
proper rotation `R'`, translation `t'` and scale `c' ≥ 0` -/
theorem umeyama_optimal_sim (x y : List (V3 Rat)) (R : M3 Rat) (t : V3 Rat) (c : Rat)
    (h : umeCert 0 true x y R t c = true) (hlen : x.length = y.length) (hne : x ≠ [])
    (R' : M3 Rat) (t' : V3 Rat) (c' : Rat) (hR' : IsRot R') (hc' : 0 ≤ c') :
    resid x y R t c ≤ resid x y R' t' c' :=
  optimal_sim (cert_of_umeCert h) hlen hne R' t' c' hR' hc'

/-- the same two statements over an arbitrary ordered field (ℝ in particular), from the
certificate as a proposition -/
theorem umeyama_optimal_field {K : Type} [Field K] [LinearOrder K] [IsStrictOrderedRing K]
    (x y : List (V3 K)) (R : M3 K) (t : V3 K) (c : K) (hlen : x.length = y.length) (hne : x ≠ []) :
    (Cert false x y R t c → ∀ R' t', IsRot R' → resid x y R t c ≤ resid x y R' t' 1) ∧
    (Cert true x y R t c → ∀ R' t' c', IsRot R' → 0 ≤ c' → resid x y R t c ≤ resid x y R' t' c') :=
  ⟨fun h R' t' hR' => optimal_rigid h hlen hne R' t' hR',
   fun h R' t' c' hR' hc' => optimal_sim h hlen hne R' t' c' hR' hc'⟩

/-- **refusal of the degenerate classes**: unequal sizes, all points of one set coincident, all
points of one set on one coordinate axis — the model raises evo's geometry error -/
theorem umeyama_refuses_degenerate (x y : List (V3 Rat))
    (h : shapeMismatch x y = true ∨ allCoincident x = true ∨ allCoincident y = true
      ∨ onOneCoordinateAxis x = true ∨ onOneCoordinateAxis y = true) :
    umeRefuses x y = true := by
  unfold umeRefuses
  rcases h with h | h | h | h | h
  · simp [h]
  · simp [refuses_of_coincident_fst h]
  · simp [refuses_of_coincident_snd h]
  · simp [refuses_of_axis_fst h]
  · simp [refuses_of_axis_snd h]

/-! ### non-vacuity: concrete instances on which the hypotheses hold -/

def exX : List (V3 Rat) := [⟨0, 0, 0⟩, ⟨1, 0, 0⟩, ⟨0, 2, 0⟩, ⟨0, 0, 3⟩, ⟨1, 1, 1⟩]
/-- rotation by 90° about z -/
def exR : M3 Rat := ⟨0, -1, 0, 1, 0, 0, 0, 0, 1⟩
/-- `y = 2·R·x + (1, 2, 3)`, the last point disturbed -/
def exY : List (V3 Rat) := [⟨1, 2, 3⟩, ⟨1, 4, 3⟩, ⟨-3, 2, 3⟩, ⟨1, 2, 9⟩, ⟨-1, 4, 6⟩]
/-- an octahedron and its mirror image (reflection in the xy-plane): the optimal orthogonal map is improper -/
def exO : List (V3 Rat) := [⟨3, 0, 0⟩, ⟨-3, 0, 0⟩, ⟨0, 2, 0⟩, ⟨0, -2, 0⟩, ⟨0, 0, 1⟩, ⟨0, 0, -1⟩]
def exM : List (V3 Rat) := [⟨3, 0, 0⟩, ⟨-3, 0, 0⟩, ⟨0, 2, 0⟩, ⟨0, -2, 0⟩, ⟨0, 0, -1⟩, ⟨0, 0, 1⟩]

/-- noise-free similarity data: the generating transformation passes the certificate -/
example : umeCert 0 true exX (exX.map (simApply exR ⟨1, 2, 3⟩ 2)) exR ⟨1, 2, 3⟩ 2 = true := by decide +kernel
example : umeCert 0 false exX (exX.map (simApply exR ⟨1, 2, 3⟩ 1)) exR ⟨1, 2, 3⟩ 1 = true := by decide +kernel
/-- mirrored data: the certified optimum is a proper rotation (here the identity), not the mirror -/
example : umeCert 0 false exO exM M3.one ⟨0, 0, 0⟩ 1 = true := by decide +kernel
/-- … and the reflection itself, although it has residual 0, is rejected by the certificate -/
example : umeCert 0 false exO exM ⟨1, 0, 0, 0, 1, 0, 0, 0, -1⟩ ⟨0, 0, 0⟩ 1 = false := by decide +kernel
/-- data that are not a similarity image of each other (residual > 0): certified optimum with scale 15/14 -/
example : umeCert 0 true exO [⟨3, 0, 0⟩, ⟨-3, 0, 0⟩, ⟨0, 2, 0⟩, ⟨0, -2, 0⟩, ⟨0, 0, 2⟩, ⟨0, 0, -2⟩] M3.one ⟨0, 0, 0⟩ (15/14) = true := by
  decide +kernel
/-- degenerate inputs are refused, generic ones are not -/
example : umeRefuses [⟨1, 0, 0⟩, ⟨2, 0, 0⟩, ⟨5, 0, 0⟩] [⟨1, 2, 3⟩, ⟨0, 1, 0⟩, ⟨2, 2, 1⟩] = true := by decide +kernel
example : umeRefuses exX exY = false := by decide +kernel

end Evo.C03
