/-
C03 — Umeyama alignment returns a proper rotation that is least-squares optimal.

`numpy.linalg.svd` is not modelled. The theorems say: *every* output `(R, t, c)` that passes the
executable certificate `Ume.umeCert 0` (Model/Umeyama.lean) for the inputs `x`, `y` is a proper
rotation, has positive scale (exactly 1 without scale estimation) and minimises the sum of
squared residuals over all proper rotations, translations (and scales); the driver evaluates
`umeCert ε` (ε = 2⁻³⁰) on evo's actual output on every run. Helper lemmas: Lemmas/TraceMax.lean,
Lemmas/Umeyama.lean (both valid over every ordered field).
-/
import EvoModel.Lemmas.Umeyama
import EvoModel.Lemmas.UmeyamaApprox
import EvoModel.Lemmas.UmeyamaUnique
namespace Evo.C03
open Evo Evo.Ume

/-- **completing the square** (ℚ instance of `Ume.resid_decomp`):
`Σ‖y_i − (cRx_i + t)‖² = n(σ_y² + c²σ_x² − 2c·tr(Rᵀcov)) + n‖t − (μ_y − cRμ_x)‖²` -/
theorem resid_decomp (x y : List (V3 Rat)) (R : M3 Rat) (t : V3 Rat) (c : Rat)
    (hlen : x.length = y.length) (hne : x ≠ []) (hR : IsOrtho R) :
    resid x y R t c = cnt x * (var y + c^2 * var x - 2 * c * (amat x y R).trace)
      + cnt x * V3.normSq (V3.sub t (tFormula x y R c)) :=
  Ume.resid_decomp x y R t c hlen (cnt_pos x hne).ne' hR

/-- **the core**: under the certificate, `tr(R'ᵀ·cov) ≤ tr(Rᵀ·cov)` for every proper rotation `R'` -/
theorem traceMax_of_cert (ws : Bool) (x y : List (V3 Rat)) (R : M3 Rat) (t : V3 Rat) (c : Rat)
    (h : umeCert 0 ws x y R t c = true) (R' : M3 Rat) (hR' : IsRot R') :
    (amat x y R').trace ≤ (amat x y R).trace :=
  Ume.traceMax_of_cert (cert_of_umeCert h) R' hR'

/-- **proper rotation**: orthonormal with determinant `+1`, never a reflection -/
theorem umeyama_proper (ws : Bool) (x y : List (V3 Rat)) (R : M3 Rat) (t : V3 Rat) (c : Rat)
    (h : umeCert 0 ws x y R t c = true) :
    R.transpose.mul R = M3.one ∧ R.det = 1 :=
  (cert_of_umeCert h).rot

/-- **positive scale, exactly 1 when scale estimation is off** -/
theorem umeyama_scale_pos (ws : Bool) (x y : List (V3 Rat)) (R : M3 Rat) (t : V3 Rat) (c : Rat)
    (h : umeCert 0 ws x y R t c = true) : 0 < c ∧ (ws = false → c = 1) := by
  have hs := (cert_of_umeCert h).scale
  cases ws with
  | true => simp only [if_true] at hs; exact ⟨hs.2, by simp⟩
  | false =>
    simp only [Bool.false_eq_true, if_false] at hs
    exact ⟨by rw [hs]; exact one_pos, fun _ => hs⟩

/-- **least-squares optimal among rigid transformations** (scale estimation off) -/
theorem umeyama_optimal_rigid (x y : List (V3 Rat)) (R : M3 Rat) (t : V3 Rat) (c : Rat)
    (h : umeCert 0 false x y R t c = true) (hlen : x.length = y.length) (hne : x ≠ [])
    (R' : M3 Rat) (t' : V3 Rat) (hR' : IsRot R') :
    resid x y R t c ≤ resid x y R' t' 1 :=
  optimal_rigid (cert_of_umeCert h) hlen hne R' t' hR'

/-- **least-squares optimal among similarity transformations** (scale estimation on): every
proper rotation `R'`, translation `t'` and scale `c' ≥ 0` -/
theorem umeyama_optimal_sim (x y : List (V3 Rat)) (R : M3 Rat) (t : V3 Rat) (c : Rat)
    (h : umeCert 0 true x y R t c = true) (hlen : x.length = y.length) (hne : x ≠ [])
    (R' : M3 Rat) (t' : V3 Rat) (c' : Rat) (hR' : IsRot R') (hc' : 0 ≤ c') :
    resid x y R t c ≤ resid x y R' t' c' :=
  optimal_sim (cert_of_umeCert h) hlen hne R' t' c' hR' hc'

/-- the same two statements over an arbitrary ordered field (ℝ in particular), from the
certificate as a proposition -/
theorem umeyama_optimal_field {K : Type} [Field K] [LinearOrder K] [IsStrictOrderedRing K]
    (x y : List (V3 K)) (R : M3 K) (t : V3 K) (c : K) (hlen : x.length = y.length) (hne : x ≠ []) :
    (Cert false x y R t c → ∀ R' t', IsRot R' → resid x y R t c ≤ resid x y R' t' 1) ∧
    (Cert true x y R t c → ∀ R' t' c', IsRot R' → 0 ≤ c' → resid x y R t c ≤ resid x y R' t' c') :=
  ⟨fun h R' t' hR' => optimal_rigid h hlen hne R' t' hR',
   fun h R' t' c' hR' hc' => optimal_sim h hlen hne R' t' c' hR' hc'⟩

/-- **certificate up to ε ⇒ optimal up to an explicit bound** (ordered field). `R` an exact proper
rotation; slacks: `ε₂` asymmetry of `A = Rᵀcov`, `ε₃` with `tr(A)I − A + ε₃I ⪰ 0`, `ε₄ ≥ ‖t − (μ_y − cRμ_x)‖²`,
`ε₅ ≥ |cσ_x² − tr A|`. With `τ = 3ε₂ + 3ε₃`:
rigid `resid ≤ resid' + n(ε₄ + 2τ)`; similarity `resid ≤ resid' + n(ε₄ + 2cτ + (ε₅+τ)²/σ_x²)`.
Both bounds vanish with the slacks. The non-orthonormality of evo's float `R₁` is handled by
`umeyama_optimal_approx_checked` (exactly computed residual gap to an exact rational rotation). -/
theorem umeyama_optimal_approx {K : Type} [Field K] [LinearOrder K] [IsStrictOrderedRing K]
    (x y : List (V3 K)) (R : M3 K) (t : V3 K) (c ε₂ ε₃ ε₄ ε₅ : K) (hlen : x.length = y.length) (hne : x ≠ []) :
    (CertApprox false x y R t c ε₂ ε₃ ε₄ ε₅ → ∀ R' t', IsRot R' →
      resid x y R t c ≤ resid x y R' t' 1 + cnt x * (ε₄ + 2 * (3 * ε₂ + 3 * ε₃))) ∧
    (CertApprox true x y R t c ε₂ ε₃ ε₄ ε₅ → ∀ R' t' c', IsRot R' → 0 ≤ c' →
      resid x y R t c ≤ resid x y R' t' c'
        + cnt x * (ε₄ + 2 * c * (3 * ε₂ + 3 * ε₃) + (ε₅ + (3 * ε₂ + 3 * ε₃)) ^ 2 / var x)) :=
  ⟨fun h R' t' hR' => optimal_approx_rigid h hlen hne R' t' hR',
   fun h R' t' c' hR' hc' => optimal_approx_sim h hlen hne R' t' c' hR' hc'⟩

/-- **the executable bound is sound**: whenever `Ume.approxReport` returns a report `r` for an
output `(R₁, t, c)` — `R₁` *not* assumed orthonormal; the report measures the slacks of the exact
rational rotation `quatRot q` of a quaternion hint and adds `(resid(R₁) − resid(quatRot q))/n` —
then `(R₁, t, c)` is optimal up to `n·r.b` among all proper rotations, translations and scales
`c' ≥ 0` (resp. `c' = 1`). The driver evaluates `approxReport` on evo's float output per case. -/
theorem umeyama_optimal_approx_checked (ws : Bool) (x y : List (V3 Rat)) (R₁ : M3 Rat) (t : V3 Rat)
    (c qw qx qy qz : Rat) (r : ApproxReport) (h : approxReport ws x y R₁ t c qw qx qy qz = some r)
    (R' : M3 Rat) (t' : V3 Rat) (c' : Rat) (hR' : IsRot R') (hc' : if ws = true then 0 ≤ c' else c' = 1) :
    resid x y R₁ t c ≤ resid x y R' t' c' + cnt x * r.b :=
  approxReport_sound ws x y R₁ t c qw qx qy qz r h R' t' c' hR' hc'

/-- **refusal of the degenerate classes**: unequal sizes, all points of one set coincident, all
points of one set on one coordinate axis — the model raises evo's geometry error -/
theorem umeyama_refuses_degenerate (x y : List (V3 Rat))
    (h : shapeMismatch x y = true ∨ allCoincident x = true ∨ allCoincident y = true
      ∨ onOneCoordinateAxis x = true ∨ onOneCoordinateAxis y = true) :
    umeRefuses x y = true := by
  unfold umeRefuses
  rcases h with h | h | h | h | h
  · simp [h]
  · simp [refuses_of_coincident_fst h]
  · simp [refuses_of_coincident_snd h]
  · simp [refuses_of_axis_fst h]
  · simp [refuses_of_axis_snd h]

/-- **noise-free data reproduce the generating transformation**: if `y_i = c₀R₀x_i + t₀` exactly
(`R₀` proper, `c₀ > 0`, `c₀ = 1` when scale estimation is off) and the points are not all
collinear (three non-collinear points, i.e. rank ≥ 2 — planar data included), every certified
output *is* `(R₀, t₀, c₀)` -/
theorem umeyama_noise_free (ws : Bool) (x : List (V3 Rat)) (R0 R : M3 Rat) (t0 t : V3 Rat) (c0 c : Rat)
    (hR0 : IsRot R0) (hc0 : 0 < c0) (hws : ws = false → c0 = 1)
    (h : umeCert 0 ws x (x.map (simApply R0 t0 c0)) R t c = true)
    (p0 p1 p2 : V3 Rat) (h0 : p0 ∈ x) (h1 : p1 ∈ x) (h2 : p2 ∈ x)
    (hnc : V3.cross (V3.sub p1 p0) (V3.sub p2 p0) ≠ V3.zero) :
    R = R0 ∧ t = t0 ∧ c = c0 :=
  noise_free ws x R0 R t0 t c0 c hR0 hc0 hws h p0 p1 p2 h0 h1 h2 hnc

/-- **uniqueness of the minimiser** under the decidable condition `certPD` (`tr(A)I − A` positive
definite: second singular value of the covariance positive and not the reflection case with
`d₂ = d₃`): a transformation of the class whose residual is not larger than that of the certified
output is the certified output -/
theorem umeyama_unique (ws : Bool) (x y : List (V3 Rat)) (R : M3 Rat) (t : V3 Rat) (c : Rat)
    (h : umeCert 0 ws x y R t c = true) (hpd : certPD x y R = true) (hlen : x.length = y.length) (hne : x ≠ [])
    (R' : M3 Rat) (t' : V3 Rat) (c' : Rat) (hR' : IsRot R') (hc' : if ws = true then 0 ≤ c' else c' = 1)
    (hle : resid x y R' t' c' ≤ resid x y R t c) : R' = R ∧ t' = t ∧ c' = c :=
  unique_of_cert (cert_of_umeCert h) (isPD_of_certPD (cert_of_umeCert h) hpd) hlen hne R' t' c' hR' hc' hle

/-- **equivariance of the residual**: moving / scaling the inputs by similarities `A` on `x` and `B`
on `y` and composing the transformation to `B∘g∘A⁻¹` multiplies the residual by `s_B²`; the residual
does not depend on the order of the point pairs -/
theorem umeyama_resid_equivariant {K : Type} [Field K] (x y : List (V3 K)) (RA RB R : M3 K) (tA tB t : V3 K)
    (sA sB c : K) (hA : IsOrtho RA) (hB : IsOrtho RB) (hsA : sA ≠ 0) :
    resid (x.map (simApply RA tA sA)) (y.map (simApply RB tB sB))
        (conjRot RA RB R) (conjTrans RA RB R tA tB t sA sB c) (conjScale sA sB c) = sB ^ 2 * resid x y R t c ∧
    ∀ x' y' : List (V3 K), (x.zip y).Perm (x'.zip y') → resid x y R t c = resid x' y' R t c :=
  ⟨resid_equivariant x y RA RB R tA tB t sA sB c hA hB hsA, fun x' y' h => resid_perm x y x' y' h R t c⟩

/-- **equivariance of the result**: for inputs that determine the result uniquely (`certPD` on the
moved data), moving (`R_A,t_A` / `R_B,t_B` proper), scaling (`s_A, s_B > 0`; equal when scale
estimation is off) and permuting the point pairs changes the certified result by exactly the
corresponding composition `B ∘ (R,t,c) ∘ A⁻¹` -/
theorem umeyama_equivariant (ws : Bool) (x y x' y' : List (V3 Rat)) (R R₂ RA RB : M3 Rat) (t t₂ tA tB : V3 Rat)
    (c c₂ sA sB : Rat)
    (h1 : umeCert 0 ws x y R t c = true) (h2 : umeCert 0 ws x' y' R₂ t₂ c₂ = true) (hpd : certPD x' y' R₂ = true)
    (hperm : (x'.zip y').Perm ((x.map (simApply RA tA sA)).zip (y.map (simApply RB tB sB))))
    (hlen : x.length = y.length) (hne : x ≠ []) (hlen' : x'.length = y'.length) (hne' : x' ≠ [])
    (hA : IsRot RA) (hB : IsRot RB) (hsA : 0 < sA) (hsB : 0 < sB) (hws : ws = false → sA = sB) :
    R₂ = conjRot RA RB R ∧ t₂ = conjTrans RA RB R tA tB t sA sB c ∧ c₂ = conjScale sA sB c :=
  equivariant_unique ws x y x' y' R R₂ RA RB t t₂ tA tB c c₂ sA sB h1 h2 hpd hperm hlen hne hlen' hne' hA hB hsA hsB hws

/-! ### non-vacuity: concrete instances on which the hypotheses hold -/

def exX : List (V3 Rat) := [⟨0, 0, 0⟩, ⟨1, 0, 0⟩, ⟨0, 2, 0⟩, ⟨0, 0, 3⟩, ⟨1, 1, 1⟩]
/-- rotation by 90° about z -/
def exR : M3 Rat := ⟨0, -1, 0, 1, 0, 0, 0, 0, 1⟩
/-- `y = 2·R·x + (1, 2, 3)`, the last point disturbed -/
def exY : List (V3 Rat) := [⟨1, 2, 3⟩, ⟨1, 4, 3⟩, ⟨-3, 2, 3⟩, ⟨1, 2, 9⟩, ⟨-1, 4, 6⟩]
/-- an octahedron and its mirror image (reflection in the xy-plane): the optimal orthogonal map is improper -/
def exO : List (V3 Rat) := [⟨3, 0, 0⟩, ⟨-3, 0, 0⟩, ⟨0, 2, 0⟩, ⟨0, -2, 0⟩, ⟨0, 0, 1⟩, ⟨0, 0, -1⟩]
def exM : List (V3 Rat) := [⟨3, 0, 0⟩, ⟨-3, 0, 0⟩, ⟨0, 2, 0⟩, ⟨0, -2, 0⟩, ⟨0, 0, -1⟩, ⟨0, 0, 1⟩]

/-- noise-free similarity data: the generating transformation passes the certificate -/
example : umeCert 0 true exX (exX.map (simApply exR ⟨1, 2, 3⟩ 2)) exR ⟨1, 2, 3⟩ 2 = true := by decide +kernel
example : umeCert 0 false exX (exX.map (simApply exR ⟨1, 2, 3⟩ 1)) exR ⟨1, 2, 3⟩ 1 = true := by decide +kernel
/-- mirrored data: the certified optimum is a proper rotation (here the identity), not the mirror -/
example : umeCert 0 false exO exM M3.one ⟨0, 0, 0⟩ 1 = true := by decide +kernel
/-- … and the reflection itself, although it has residual 0, is rejected by the certificate -/
example : umeCert 0 false exO exM ⟨1, 0, 0, 0, 1, 0, 0, 0, -1⟩ ⟨0, 0, 0⟩ 1 = false := by decide +kernel
/-- data that are not a similarity image of each other (residual > 0): certified optimum with scale 15/14 -/
example : umeCert 0 true exO [⟨3, 0, 0⟩, ⟨-3, 0, 0⟩, ⟨0, 2, 0⟩, ⟨0, -2, 0⟩, ⟨0, 0, 2⟩, ⟨0, 0, -2⟩] M3.one ⟨0, 0, 0⟩ (15/14) = true := by
  decide +kernel
/-- degenerate inputs are refused, generic ones are not -/
example : umeRefuses [⟨1, 0, 0⟩, ⟨2, 0, 0⟩, ⟨5, 0, 0⟩] [⟨1, 2, 3⟩, ⟨0, 1, 0⟩, ⟨2, 2, 1⟩] = true := by decide +kernel
example : umeRefuses exX exY = false := by decide +kernel
/-- `exX` contains three non-collinear points (hypothesis of `umeyama_noise_free`) -/
example : V3.cross (V3.sub (⟨1, 0, 0⟩ : V3 Rat) ⟨0, 0, 0⟩) (V3.sub ⟨0, 2, 0⟩ ⟨0, 0, 0⟩) ≠ V3.zero := by decide +kernel

/-- a slightly non-orthonormal, slightly sub-optimal output still gets a (small, positive) bound:
the report exists, so `umeyama_optimal_approx_checked` is not vacuous -/
example : (approxReport true exO [⟨3, 0, 0⟩, ⟨-3, 0, 0⟩, ⟨0, 2, 0⟩, ⟨0, -2, 0⟩, ⟨0, 0, 2⟩, ⟨0, 0, -2⟩]
    ⟨1, 1/1000, 0, -1/1000, 1, 0, 0, 0, 1⟩ ⟨1/1000, 0, 0⟩ (15/14 + 1/1000) 1 0 0 (1/2000)).isSome = true := by
  decide +kernel

/-- the uniqueness condition is satisfiable: it holds for the generic example, and for the mirrored
octahedron (reflection case, `d₂ = 2²/3 > d₃ = 1/3`) -/
example : certPD exX (exX.map (simApply exR ⟨1, 2, 3⟩ 2)) exR = true := by decide +kernel
example : certPD exO exM M3.one = true := by decide +kernel
/-- … and fails where the minimiser really is not unique: the regular octahedron mirrored
(reflection case with `d₁ = d₂ = d₃`) -/
example : certPD [⟨1, 0, 0⟩, ⟨-1, 0, 0⟩, ⟨0, 1, 0⟩, ⟨0, -1, 0⟩, ⟨0, 0, 1⟩, ⟨0, 0, -1⟩]
    [⟨1, 0, 0⟩, ⟨-1, 0, 0⟩, ⟨0, 1, 0⟩, ⟨0, -1, 0⟩, ⟨0, 0, -1⟩, ⟨0, 0, 1⟩] M3.one = false := by decide +kernel

end Evo.C03
