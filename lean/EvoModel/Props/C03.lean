import EvoModel.Model.Umeyama
namespace Evo.C03
end Evo.C03
