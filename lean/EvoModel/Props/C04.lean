import EvoModel.Model.Align
namespace Evo.C04
end Evo.C04
