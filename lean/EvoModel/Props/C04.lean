/-
C04 — trajectory alignment applies exactly the returned transform, never worsens the fit.
Theorems about `Evo.Align` (model of PosePath3D.scale/transform/align/align_origin and of the
alignment block of ape()/rpe() after fix aaba970). The Umeyama triple `(R, t, s)` is an input of
the model; its properties come from C03 through the certificate `Ume.umeCert 0`.
Helper lemmas: Lemmas/Align.lean, Lemmas/Umeyama.lean.
-/
import EvoModel.Lemmas.Align
import EvoModel.Lemmas.UmeyamaUnique
namespace Evo.C04
open Evo Evo.Ume Evo.Align

set_option linter.unusedSectionVars false
set_option linter.unusedSimpArgs false
variable {K : Type} [Field K]

/-- **every pose is moved by exactly the returned similarity** (similarity mode): position
`p ↦ s·R·p + t`, orientation `R_p ↦ R·R_p`; rigid mode: the same with `s = 1`. -/
theorem align_is_similarity (R : M3 K) (t : V3 K) (s : K) (ps : List (Pose K)) :
    alignApply .sim3 R t s ps = ps.map (fun p => ⟨R.mul p.rot, V3.add (V3.smul s (R.mulVec p.t)) t⟩) ∧
    alignApply .se3 R t s ps = ps.map (fun p => ⟨R.mul p.rot, V3.add (V3.smul 1 (R.mulVec p.t)) t⟩) :=
  ⟨alignApply_sim3 R t s ps, alignApply_se3 R t s ps⟩

/-- **scale-only mode multiplies positions by `s` and changes nothing else** -/
theorem align_scaleOnly (R : M3 K) (t : V3 K) (s : K) (ps : List (Pose K)) :
    alignApply .scaleOnly R t s ps = ps.map (fun p => ⟨p.rot, V3.smul s p.t⟩) ∧
    (alignApply .scaleOnly R t s ps).map Pose.rot = ps.map Pose.rot := by
  refine ⟨rfl, ?_⟩
  simp [alignApply, scalePath, List.map_map, Function.comp_def]

/-- the number of poses never changes, in any mode -/
theorem align_length (m : Mode) (R : M3 K) (t : V3 K) (s : K) (ps : List (Pose K)) :
    (alignApply m R t s ps).length = ps.length := by
  cases m <;> simp [alignApply, transformLeft, scalePath]

/-- **determined from the first `n` pose pairs only**: `n = -1` uses all positions; for `n ≥ 0`
the point sets handed to Umeyama are the positions of the first `n` poses, whatever follows. -/
theorem align_uses_firstN (est ref : List (Pose K)) :
    alignInputs (-1) est ref = (positions est, positions ref) ∧
    ∀ (n : Int) (e1 e2 r1 r2 : List (Pose K)), 0 ≤ n → e1.length = n.toNat → r1.length = n.toNat →
      alignInputs n (e1 ++ e2) (r1 ++ r2) = (positions e1, positions r1) := by
  refine ⟨by simp [alignInputs, firstN_neg_one], ?_⟩
  intro n e1 e2 r1 r2 hn he hr
  simp only [alignInputs, positions, List.map_append]
  rw [firstN_append n hn _ _ (by simpa using he), firstN_append n hn _ _ (by simpa using hr)]

/-- **unequal numbers of poses are refused**: when the point sets handed to Umeyama (the first-`n`
positions of each trajectory; `n = -1`: all of them) differ in size, the model raises evo's geometry
error — in particular a reference longer than the estimate is not silently cut (`n = -1`) -/
theorem align_refuses_unequal (n : Int) (est ref : List (Pose Rat))
    (h : (alignInputs n est ref).1.length ≠ (alignInputs n est ref).2.length) :
    umeRefuses (alignInputs n est ref).1 (alignInputs n est ref).2 = true ∧
    (n = -1 → est.length ≠ ref.length → umeRefuses (positions est) (positions ref) = true) := by
  refine ⟨by simp [umeRefuses, shapeMismatch, h], fun _ hl => ?_⟩
  simp [umeRefuses, shapeMismatch, positions, hl]

/-- **origin mode maps the first pose onto the reference's first pose** -/
theorem alignOrigin_first_pose (r0 e0 : Pose K) (rs es : List (Pose K)) (he : IsRigid e0) :
    ∃ T ps, alignOrigin (r0 :: rs) (e0 :: es) = some (T, r0 :: ps) ∧ T = r0.mul e0.inv := by
  refine ⟨r0.mul e0.inv, transformLeft (r0.mul e0.inv) es, ?_, rfl⟩
  simp only [alignOrigin, transformLeft, List.map_cons]
  rw [Pose.mul_assoc', Pose.inv_mul_self he, Pose.mul_one']

/-- **origin mode preserves all relative poses** (`rel (T·a) (T·b) = rel a b`), for valid
(rigid) first poses; every pose is moved by the returned matrix `T = ref₀·est₀⁻¹` -/
theorem alignOrigin_preserves_rel (ref est : List (Pose K)) (T : Pose K) (ps : List (Pose K))
    (h : alignOrigin ref est = some (T, ps))
    (hr : ∀ p ∈ ref, IsRigid p) (he : ∀ p ∈ est, IsRigid p) :
    ps = est.map (fun p => T.mul p) ∧ IsRigid T ∧ ∀ a b : Pose K, (T.mul a).rel (T.mul b) = a.rel b := by
  cases ref with
  | nil => simp [alignOrigin] at h
  | cons r0 rs =>
    cases est with
    | nil => simp [alignOrigin] at h
    | cons e0 es =>
      simp only [alignOrigin, Option.some.injEq, Prod.mk.injEq] at h
      obtain ⟨hT, hps⟩ := h
      have hrig : IsRigid T := by
        rw [← hT]; exact IsRigid.mul (hr r0 (by simp)) (he e0 (by simp)).inv
      exact ⟨by rw [← hps, ← hT]; rfl, hrig, fun a b => Pose.rel_left_invariant T a b hrig⟩

/-- empty trajectories are refused by origin alignment -/
theorem alignOrigin_refuses_empty (l : List (Pose K)) :
    alignOrigin ([] : List (Pose K)) l = none ∧ alignOrigin l ([] : List (Pose K)) = none := by
  constructor
  · simp [alignOrigin]
  · cases l <;> simp [alignOrigin]

/-- the squared translation error over the poses used, after alignment, *is* the Umeyama residual
of the returned parameters (all three modes; `n` as in `align`) -/
theorem align_sse_eq_resid (n : Int) (R : M3 K) (t : V3 K) (s : K) (est ref : List (Pose K)) :
    sse (firstN n (positions (alignApply .sim3 R t s est))) (firstN n (positions ref))
      = resid (alignInputs n est ref).1 (alignInputs n est ref).2 R t s ∧
    sse (firstN n (positions (alignApply .se3 R t s est))) (firstN n (positions ref))
      = resid (alignInputs n est ref).1 (alignInputs n est ref).2 R t 1 ∧
    sse (firstN n (positions est)) (firstN n (positions ref))
      = resid (alignInputs n est ref).1 (alignInputs n est ref).2 M3.one V3.zero 1 := by
  refine ⟨?_, ?_, ?_⟩
  · rw [alignApply_sim3, ← sse_map]
    simp only [positions, alignInputs, List.map_map, firstN_map]
    rfl
  · rw [alignApply_se3, ← sse_map]
    simp only [positions, alignInputs, List.map_map, firstN_map]
    rfl
  · exact sse_eq_resid_id _ _

section rat

/-- **RMSE after rigid / similarity alignment is never larger than before** (sum of squared
position errors over the poses used; the identity is in the class), given that the returned
triple passes the C03 certificate on the point sets `align` hands to Umeyama -/
theorem align_rmse_not_worse (n : Int) (ws : Bool) (R : M3 Rat) (t : V3 Rat) (s : Rat) (est ref : List (Pose Rat))
    (hc : umeCert 0 ws (alignInputs n est ref).1 (alignInputs n est ref).2 R t s = true)
    (hlen : (alignInputs n est ref).1.length = (alignInputs n est ref).2.length)
    (hne : (alignInputs n est ref).1 ≠ []) :
    sse (firstN n (positions (alignApply (if ws then .sim3 else .se3) R t s est))) (firstN n (positions ref))
      ≤ sse (firstN n (positions est)) (firstN n (positions ref)) := by
  obtain ⟨h1, h2, h3⟩ := align_sse_eq_resid n R t s est ref
  rw [h3]
  cases ws with
  | true =>
    simp only [if_true]
    rw [h1]
    exact optimal_sim (cert_of_umeCert hc) hlen hne M3.one V3.zero 1 IsRot.one zero_le_one
  | false =>
    simp only [Bool.false_eq_true, if_false]
    rw [h2]
    have hs : s = 1 := by
      have := (cert_of_umeCert hc).scale
      simpa using this
    have := optimal_rigid (cert_of_umeCert hc) hlen hne M3.one V3.zero IsRot.one
    rwa [hs] at this

/-- **… and never larger than under any other transformation of the same class** -/
theorem align_rmse_optimal (n : Int) (ws : Bool) (R : M3 Rat) (t : V3 Rat) (s : Rat) (est ref : List (Pose Rat))
    (hc : umeCert 0 ws (alignInputs n est ref).1 (alignInputs n est ref).2 R t s = true)
    (hlen : (alignInputs n est ref).1.length = (alignInputs n est ref).2.length)
    (hne : (alignInputs n est ref).1 ≠ [])
    (R' : M3 Rat) (t' : V3 Rat) (s' : Rat) (hR' : IsRot R') (hs' : if ws then 0 ≤ s' else s' = 1) :
    sse (firstN n (positions (alignApply (if ws then .sim3 else .se3) R t s est))) (firstN n (positions ref))
      ≤ sse (firstN n (positions (alignApply .sim3 R' t' s' est))) (firstN n (positions ref)) := by
  obtain ⟨h1, h2, _⟩ := align_sse_eq_resid n R t s est ref
  obtain ⟨h1', _, _⟩ := align_sse_eq_resid n R' t' s' est ref
  rw [h1']
  cases ws with
  | true =>
    simp only [if_true] at hs' ⊢
    rw [h1]
    exact optimal_sim (cert_of_umeCert hc) hlen hne R' t' s' hR' hs'
  | false =>
    simp only [Bool.false_eq_true, if_false] at hs' ⊢
    rw [h2, hs']
    have hs : s = 1 := by
      have := (cert_of_umeCert hc).scale
      simpa using this
    have := optimal_rigid (cert_of_umeCert hc) hlen hne R' t' hR'
    rwa [hs] at this

/-- **aligning an already aligned trajectory again is the identity**: `(R, t, s)` certified for the
point sets `(x, y)` in mode `ws`; the aligned points are `x' = s·R·x + t` (`s = 1` in rigid mode); a
second alignment `(R₂, t₂, s₂)` certified for `(x', y)` in the same mode, under the uniqueness
condition `certPD` (decidable; see `C03.umeyama_unique`), is exactly `(I, 0, 1)`. -/
theorem align_twice_identity (ws : Bool) (x y : List (V3 Rat)) (R R₂ : M3 Rat) (t t₂ : V3 Rat) (s s₂ : Rat)
    (h1 : umeCert 0 ws x y R t s = true)
    (h2 : umeCert 0 ws (x.map (simApply R t s)) y R₂ t₂ s₂ = true)
    (hpd : certPD (x.map (simApply R t s)) y R₂ = true)
    (hlen : x.length = y.length) (hne : x ≠ []) :
    R₂ = M3.one ∧ t₂ = V3.zero ∧ s₂ = 1 := by
  have c1 := cert_of_umeCert h1
  have c2 := cert_of_umeCert h2
  have hlen' : (x.map (simApply R t s)).length = y.length := by simpa using hlen
  have hne' : x.map (simApply R t s) ≠ [] := by simpa using hne
  have hle : resid (x.map (simApply R t s)) y M3.one V3.zero 1 ≤ resid (x.map (simApply R t s)) y R₂ t₂ s₂ := by
    rw [← sse_eq_resid_id, sse_map, resid_map_comp]
    cases ws with
    | true =>
      have hs : 0 < s := by have := c1.scale; simp only [if_true] at this; exact this.2
      have hs2 : 0 < s₂ := by have := c2.scale; simp only [if_true] at this; exact this.2
      exact optimal_sim c1 hlen hne _ _ _ (c2.rot.mul c1.rot) (mul_nonneg hs2.le hs.le)
    | false =>
      have hs : s = 1 := by have := c1.scale; simpa using this
      have hs2 : s₂ = 1 := by have := c2.scale; simpa using this
      rw [hs2, hs, mul_one]
      have := optimal_rigid c1 hlen hne (R₂.mul R) (V3.add (V3.smul 1 (R₂.mulVec t)) t₂) (c2.rot.mul c1.rot)
      rwa [hs] at this
  have hcls : if ws = true then (0:Rat) ≤ 1 else (1:Rat) = 1 := by cases ws <;> simp
  obtain ⟨e1, e2, e3⟩ := unique_of_cert c2 (isPD_of_certPD c2 hpd) hlen' hne' M3.one V3.zero 1 IsRot.one hcls hle
  exact ⟨e1.symm, e2.symm, e3.symm⟩

end rat

/-- **the recorded `alignment_transformation_sim3` maps the unaligned estimate onto the stored
estimate**, for every combination of `align`, `correct_scale`, `align_origin` (8 cases; when
nothing is requested no matrix is recorded and the estimate is untouched). `s ≠ 0`, and `s = 1`
when scale correction is off — both guaranteed by C03 (`umeyama_scale_pos`). -/
theorem recorded_matrix_maps_unaligned_to_stored (o : Opts) (R : M3 K) (t : V3 K) (s : K)
    (ref est stored : List (Pose K)) (M : Option (Pose K))
    (h : apeAlign o R t s ref est = some (stored, M)) (hs : s ≠ 0) (hs1 : o.correctScale = false → s = 1) :
    (∀ M', M = some M' → stored = est.map (moveBy M' (if o.correctScale then s else 1))) ∧
    (M = none → stored = est ∧ o.align = false ∧ o.correctScale = false ∧ o.alignOrigin = false) := by
  obtain ⟨a, c, og⟩ := o
  have key : ∀ (m1 : Pose K) (σ : K) (est1 : List (Pose K)), est1 = est.map (moveBy m1 σ) →
      ∀ T ps, alignOrigin ref est1 = some (T, ps) → ps = est.map (moveBy (T.mul m1) σ) := by
    intro m1 σ est1 h1 T ps hO
    cases ref with
    | nil => simp [alignOrigin] at hO
    | cons r0 rs =>
      cases hE : est1 with
      | nil => rw [hE] at hO; simp [alignOrigin] at hO
      | cons e0 es =>
        rw [hE] at hO
        simp only [alignOrigin, Option.some.injEq, Prod.mk.injEq] at hO
        obtain ⟨hT, hps⟩ := hO
        rw [← hps, ← hE, h1, hT]
        simp only [transformLeft, List.map_map]
        apply List.map_congr_left
        intro p _
        simp only [Function.comp, moveBy_mul]
  have hsim : alignApply .sim3 R t s est = est.map (moveBy (Pose.sim3 R t s) s) := by
    rw [alignApply_sim3]; apply List.map_congr_left; intro p _; rw [moveBy_sim3 R t s hs]
  have hse : s = 1 → alignApply .se3 R t s est = est.map (moveBy (Pose.sim3 R t s) 1) := by
    intro h1; subst h1
    rw [alignApply_se3]; apply List.map_congr_left; intro p _; rw [moveBy_sim3 R t 1 one_ne_zero]
  have hsc : alignApply .scaleOnly R t s est = est.map (moveBy (Pose.sim3 M3.one V3.zero s) s) := by
    rw [alignApply_scaleOnly]; apply List.map_congr_left; intro p _; rw [moveBy_scale s hs]
  have hid : est = est.map (moveBy (Pose.one : Pose K) 1) := by
    conv_lhs => rw [← List.map_id est]
    apply List.map_congr_left; intro p _; rw [moveBy_rigid, Pose.one_mul']; rfl
  cases a <;> cases c <;> cases og <;>
    simp only [apeAlign, Opts.mode, Opts.onlyScale, modeOf, Bool.or_false, Bool.or_true, Bool.false_or,
      Bool.and_true, Bool.and_false, Bool.not_true, Bool.not_false, Bool.false_eq_true, if_false, if_true,
      Bool.true_and, Bool.false_and] at h hs1
  · -- nothing requested
    simp only [Option.some.injEq, Prod.mk.injEq] at h
    obtain ⟨h1, h2⟩ := h
    subst h2; exact ⟨fun M' hM => (by cases hM), fun _ => ⟨h1.symm, rfl, rfl, rfl⟩⟩
  · -- origin only
    cases hO : alignOrigin ref est with
    | none => rw [hO] at h; simp at h
    | some Tp =>
      obtain ⟨T, ps⟩ := Tp
      rw [hO] at h
      simp only [Option.some.injEq, Prod.mk.injEq] at h
      obtain ⟨h1, h2⟩ := h
      subst h2
      have := key Pose.one 1 est hid T ps hO
      rw [Pose.mul_one'] at this
      exact ⟨fun M' hM => (by cases hM; rw [← h1]; exact this), fun hM => (by cases hM)⟩
  · -- scale only
    simp only [Option.some.injEq, Prod.mk.injEq] at h
    obtain ⟨h1, h2⟩ := h
    subst h2
    exact ⟨fun M' hM => (by cases hM; rw [← h1]; exact hsc), fun hM => (by cases hM)⟩
  · -- scale + origin
    cases hO : alignOrigin ref (alignApply .scaleOnly R t s est) with
    | none => rw [hO] at h; simp at h
    | some Tp =>
      obtain ⟨T, ps⟩ := Tp
      rw [hO] at h
      simp only [Option.some.injEq, Prod.mk.injEq] at h
      obtain ⟨h1, h2⟩ := h
      subst h2
      exact ⟨fun M' hM => (by cases hM; rw [← h1]; exact key _ s _ hsc T ps hO), fun hM => (by cases hM)⟩
  · -- rigid
    simp only [Option.some.injEq, Prod.mk.injEq] at h
    obtain ⟨h1, h2⟩ := h
    subst h2
    exact ⟨fun M' hM => (by cases hM; rw [← h1]; exact hse (hs1 trivial)), fun hM => (by cases hM)⟩
  · -- rigid + origin
    cases hO : alignOrigin ref (alignApply .se3 R t s est) with
    | none => rw [hO] at h; simp at h
    | some Tp =>
      obtain ⟨T, ps⟩ := Tp
      rw [hO] at h
      simp only [Option.some.injEq, Prod.mk.injEq] at h
      obtain ⟨h1, h2⟩ := h
      subst h2
      exact ⟨fun M' hM => (by cases hM; rw [← h1]; exact key _ 1 _ (hse (hs1 trivial)) T ps hO), fun hM => (by cases hM)⟩
  · -- similarity
    simp only [Option.some.injEq, Prod.mk.injEq] at h
    obtain ⟨h1, h2⟩ := h
    subst h2
    exact ⟨fun M' hM => (by cases hM; rw [← h1]; exact hsim), fun hM => (by cases hM)⟩
  · -- similarity + origin
    cases hO : alignOrigin ref (alignApply .sim3 R t s est) with
    | none => rw [hO] at h; simp at h
    | some Tp =>
      obtain ⟨T, ps⟩ := Tp
      rw [hO] at h
      simp only [Option.some.injEq, Prod.mk.injEq] at h
      obtain ⟨h1, h2⟩ := h
      subst h2
      exact ⟨fun M' hM => (by cases hM; rw [← h1]; exact key _ s _ hsim T ps hO), fun hM => (by cases hM)⟩

/-! ### the code before fix aaba970 (finding F5): kernel-checked counterexamples -/

def cxRef : List (Pose Rat) := [⟨M3.one, ⟨0, 0, 0⟩⟩, ⟨M3.one, ⟨2, 0, 0⟩⟩, ⟨M3.one, ⟨2, 4, 0⟩⟩, ⟨M3.one, ⟨0, 4, 6⟩⟩]
def cxEst : List (Pose Rat) := [⟨M3.one, ⟨1, 1, 1⟩⟩, ⟨M3.one, ⟨2, 1, 1⟩⟩, ⟨M3.one, ⟨2, 3, 1⟩⟩, ⟨M3.one, ⟨1, 3, 4⟩⟩]
/-- rotation by 90° about z -/
def cxR : M3 Rat := ⟨0, -1, 0, 1, 0, 0, 0, 0, 1⟩

/-- scale correction alone: the old code recorded `sim3(R, t, s)` although only `s` was applied -/
theorem recorded_matrix_counterexample_scaleOnly :
    ∃ stored M, apeAlignOld ⟨false, true, false⟩ cxR ⟨1, 2, 3⟩ 2 cxRef cxEst = some (stored, some M)
      ∧ stored ≠ cxEst.map (moveBy M 2) := by
  refine ⟨_, _, rfl, ?_⟩
  decide +kernel

/-- scale correction + origin alignment: the old code recorded only the origin transformation -/
theorem recorded_matrix_counterexample_scale_then_origin :
    ∃ stored M, apeAlignOld ⟨false, true, true⟩ cxR ⟨1, 2, 3⟩ 2 cxRef cxEst = some (stored, some M)
      ∧ stored ≠ cxEst.map (moveBy M 2) ∧ stored ≠ cxEst.map (moveBy M 1) := by
  refine ⟨_, _, rfl, ?_, ?_⟩ <;> decide +kernel

/-- mutant check: applying the scale *after* the rigid transformation is a different map -/
theorem scale_after_transform_differs :
    scalePath 2 (transformLeft (se3 cxR ⟨1, 2, 3⟩) cxEst) ≠ alignApply .sim3 cxR ⟨1, 2, 3⟩ 2 cxEst := by
  decide +kernel

/-! ### non-vacuity -/

/-- the repaired code on the same instance: all eight option combinations produce a result, and the
hypotheses of `recorded_matrix_maps_unaligned_to_stored` hold (`s = 2 ≠ 0`) -/
example : (apeAlign ⟨false, true, true⟩ cxR ⟨1, 2, 3⟩ 2 cxRef cxEst).isSome = true := by decide +kernel
example : ∃ stored M, apeAlign ⟨false, true, false⟩ cxR ⟨1, 2, 3⟩ 2 cxRef cxEst = some (stored, some M)
    ∧ stored = cxEst.map (moveBy M 2) := ⟨_, _, rfl, by decide +kernel⟩
/-- origin alignment of rigid poses: defined, first pose = reference's first pose -/
example : ∃ T ps, alignOrigin cxRef cxEst = some (T, ps) ∧ ps.head? = cxRef.head? := ⟨_, _, rfl, by decide +kernel⟩
/-- a certified Umeyama triple on trajectory positions (octahedron, scale 15/14) — the hypotheses of
`align_rmse_not_worse` / `align_rmse_optimal` are satisfiable with a non-zero residual -/
def oEst : List (Pose Rat) :=
  [⟨M3.one, ⟨3, 0, 0⟩⟩, ⟨M3.one, ⟨-3, 0, 0⟩⟩, ⟨M3.one, ⟨0, 2, 0⟩⟩, ⟨M3.one, ⟨0, -2, 0⟩⟩, ⟨M3.one, ⟨0, 0, 1⟩⟩, ⟨M3.one, ⟨0, 0, -1⟩⟩]
def oRef : List (Pose Rat) :=
  [⟨M3.one, ⟨3, 0, 0⟩⟩, ⟨M3.one, ⟨-3, 0, 0⟩⟩, ⟨M3.one, ⟨0, 2, 0⟩⟩, ⟨M3.one, ⟨0, -2, 0⟩⟩, ⟨M3.one, ⟨0, 0, 2⟩⟩, ⟨M3.one, ⟨0, 0, -2⟩⟩,
   ⟨M3.one, ⟨7, 7, 7⟩⟩]
example : umeCert 0 true (alignInputs 6 (oEst ++ [⟨M3.one, ⟨9, 9, 9⟩⟩]) oRef).1 (alignInputs 6 (oEst ++ [⟨M3.one, ⟨9, 9, 9⟩⟩]) oRef).2
    M3.one ⟨0, 0, 0⟩ (15/14) = true := by decide +kernel

/-- hypotheses of `align_twice_identity` are satisfiable: octahedron aligned with scale 15/14, the
second alignment `(I, 0, 1)` is certified for the aligned points and `certPD` holds -/
example : umeCert 0 true ((alignInputs 6 oEst oRef).1.map (simApply M3.one ⟨0, 0, 0⟩ (15/14))) (alignInputs 6 oEst oRef).2
      M3.one ⟨0, 0, 0⟩ 1 = true
    ∧ certPD ((alignInputs 6 oEst oRef).1.map (simApply M3.one ⟨0, 0, 0⟩ (15/14))) (alignInputs 6 oEst oRef).2 M3.one = true := by
  decide +kernel

end Evo.C04
