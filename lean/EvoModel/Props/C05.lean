/-
C05 — time association pairs each pose with its nearest counterpart within max_diff.
Property theorems about `Evo.Sync` (model of evo/core/sync.py after the F8 repair) and the
counterexample for the pinned code. Helper lemmas live in `Lemmas/Sync.lean`.
-/
import EvoModel.Lemmas.Sync
namespace Evo.C05
open Evo Evo.Sync

/-- data of a produced pair -/
theorem match_mem_raw {s1 s2 : List Rat} {md off : Rat} {p : Nat × Nat}
    (hp : p ∈ matchIdx s1 s2 md off) :
    ∃ m ∈ keepBest (rawMatches s1 s2 md off), p = (m.i, m.j) := by
  unfold matchIdx at hp
  obtain ⟨m, hm, rfl⟩ := List.mem_map.mp hp
  exact ⟨m, hm, rfl⟩

/-- **within max_diff, nearest counterpart, no other pairs**: every produced pair `(i, j)`
consists of valid indices, `|s₂[j] + off − s₁[i]| ≤ maxDiff`, and `j` is a nearest
counterpart of `i` (the first one among equally near ones). -/
theorem match_within_and_nearest (s1 s2 : List Rat) (md off : Rat) (p : Nat × Nat)
    (hp : p ∈ matchIdx s1 s2 md off) :
    ∃ (hi : p.1 < s1.length) (hj : p.2 < s2.length),
      dist off s1[p.1] s2[p.2] ≤ md ∧
      p.2 = argminFirst (dist off s1[p.1]) s2 ∧
      ∀ k (hk : k < s2.length), dist off s1[p.1] s2[p.2] ≤ dist off s1[p.1] s2[k] := by
  obtain ⟨m, hm, rfl⟩ := match_mem_raw hp
  have hraw := (keepBest_sublist _).subset hm
  obtain ⟨_, hi, jlt, t, ht, hjarg, ⟨u, hu, hd⟩, hle⟩ := rawGo_ok s2 md off s1 0 m hraw
  simp only [Nat.sub_zero] at hi ht
  have ht' : s1[m.i] = t := by
    have := List.getElem?_eq_getElem hi; rw [this] at ht; exact Option.some.inj ht
  have hu' : s2[m.j] = u := by
    have := List.getElem?_eq_getElem jlt; rw [this] at hu; exact Option.some.inj hu
  refine ⟨hi, jlt, ?_, ?_, ?_⟩
  · simp only [ht', hu', ← hd]; exact hle
  · simp only [ht']; exact hjarg
  · intro k hk
    have hne : s2 ≠ [] := by intro h; simp [h] at jlt
    obtain ⟨_, hmin, _⟩ := argminFirst_spec (dist off t) s2 hne
    simp only [ht']
    have := hmin k hk
    simp only [← hjarg] at this
    exact this

/-- the driving indices are strictly increasing (each driving pose used at most once, in order) -/
theorem match_fst_strictly_increasing (s1 s2 : List Rat) (md off : Rat) :
    ((matchIdx s1 s2 md off).map Prod.fst).Pairwise (· < ·) := by
  unfold matchIdx
  rw [List.map_map]
  have h := (rawGo_fst_lt s2 md off s1 0).sublist (keepBest_sublist (rawMatches s1 s2 md off))
  exact List.pairwise_map.mpr (by simpa using h)

/-- no pose of the searched trajectory is used more than once (false before the F8 repair) -/
theorem match_snd_nodup (s1 s2 : List Rat) (md off : Rat) :
    ((matchIdx s1 s2 md off).map Prod.snd).Nodup := by
  unfold matchIdx
  rw [List.map_map]
  have hinj := pairwise_lt_inj (fun m : Match => m.i) _ (rawGo_fst_lt s2 md off s1 0)
  have hnd : (keepBest (rawMatches s1 s2 md off)).Nodup := by
    have : (rawMatches s1 s2 md off).Nodup := by
      have hp := rawGo_fst_lt s2 md off s1 0
      exact hp.imp (fun {a b} h e => by subst e; omega)
    exact this.sublist (keepBest_sublist _)
  refine List.Nodup.map_on ?_ hnd
  intro a ha b hb hab
  exact keepBest_snd_inj _ hinj a b ha hb hab

/-- **completeness**: a driving pose `i` whose nearest counterpart `j` lies within `maxDiff`
and which is not beaten for `j` by another driving pose is paired with `j`. -/
theorem match_complete (s1 s2 : List Rat) (md off : Rat) (i : Nat) (hi : i < s1.length)
    (hne : s2 ≠ [])
    (hle : dist off s1[i] (s2[argminFirst (dist off s1[i]) s2]'(argminFirst_spec _ s2 hne).1) ≤ md)
    (huncontested : ∀ m' ∈ rawMatches s1 s2 md off, m'.i ≠ i →
        m'.j ≠ argminFirst (dist off s1[i]) s2) :
    (i, argminFirst (dist off s1[i]) s2) ∈ matchIdx s1 s2 md off := by
  have hj := (argminFirst_spec (dist off s1[i]) s2 hne).1
  have hraw := rawGo_complete s2 md off s1 0 i s1[i] (List.getElem?_eq_getElem hi)
    (s2[argminFirst (dist off s1[i]) s2]) (List.getElem?_eq_getElem hj) hle
  simp only [Nat.zero_add] at hraw
  unfold matchIdx
  refine List.mem_map.mpr ⟨_, mem_keepBest.mpr ⟨hraw, ?_⟩, rfl⟩
  intro m' hm'
  by_cases hmi : m'.i = i
  · have hinj := pairwise_lt_inj (fun m : Match => m.i) _ (rawGo_fst_lt s2 md off s1 0)
    have := hinj m' hm' _ hraw hmi
    subst this
    unfold beats; simp
  · have := huncontested m' hm' hmi
    unfold beats; simp [this]

/-- **a contested counterpart goes to the closest driving pose**: whoever is paired with `j`
is at least as close to it as every other driving pose whose nearest counterpart is `j`. -/
theorem match_contested_keeps_closest (s1 s2 : List Rat) (md off : Rat)
    (m : Match) (hm : m ∈ keepBest (rawMatches s1 s2 md off))
    (m' : Match) (hm' : m' ∈ rawMatches s1 s2 md off) (hj : m'.j = m.j) : m.d ≤ m'.d := by
  have h := (mem_keepBest.mp hm).2 m' hm'
  have : ¬ (m'.j = m.j ∧ (m'.d < m.d ∨ (m'.d = m.d ∧ m'.i < m.i))) := by
    rw [← beats_iff]; simp [h]
  by_contra hlt
  exact this ⟨hj, Or.inl (not_le.mp hlt)⟩

/-- nearest-counterpart indices are monotone in the driving stamp when both lists increase -/
theorem raw_snd_monotone (s1 s2 : List Rat) (md off : Rat)
    (h1 : s1.Pairwise (· < ·)) (h2 : s2.Pairwise (· < ·))
    (a b : Match) (ha : a ∈ rawMatches s1 s2 md off) (hb : b ∈ rawMatches s1 s2 md off)
    (hab : a.i < b.i) : a.j ≤ b.j := by
  obtain ⟨_, hia, jlta, ta, hta, hja, _, _⟩ := rawGo_ok s2 md off s1 0 a ha
  obtain ⟨_, hib, jltb, tb, htb, hjb, _, _⟩ := rawGo_ok s2 md off s1 0 b hb
  simp only [Nat.sub_zero] at hia hta hib htb
  have hta' : s1[a.i] = ta := by
    have := List.getElem?_eq_getElem hia; rw [this] at hta; exact Option.some.inj hta
  have htb' : s1[b.i] = tb := by
    have := List.getElem?_eq_getElem hib; rw [this] at htb; exact Option.some.inj htb
  have hlt : ta < tb := by
    rw [← hta', ← htb']; exact List.pairwise_iff_getElem.mp h1 _ _ hia hib hab
  by_contra hcon
  have hjlt : b.j < a.j := Nat.lt_of_not_le hcon
  have hne : s2 ≠ [] := by intro h; simp [h] at jlta
  obtain ⟨_, _, hfa⟩ := argminFirst_spec (dist off ta) s2 hne
  obtain ⟨_, hmb, _⟩ := argminFirst_spec (dist off tb) s2 hne
  have e1 := hfa b.j (by rw [← hja]; exact hjlt)
  have e2 := hmb a.j jlta
  simp only [← hja] at e1
  simp only [← hjb] at e2
  have hs : s2[b.j] < s2[a.j] := List.pairwise_iff_getElem.mp h2 _ _ jltb jlta hjlt
  unfold dist absR at e1 e2
  split_ifs at e1 e2 <;> linarith

/-- **increasing time order** of the searched trajectory's poses as well: with strictly
increasing inputs the counterpart indices are strictly increasing. -/
theorem match_snd_strictly_increasing (s1 s2 : List Rat) (md off : Rat)
    (h1 : s1.Pairwise (· < ·)) (h2 : s2.Pairwise (· < ·)) :
    ((matchIdx s1 s2 md off).map Prod.snd).Pairwise (· < ·) := by
  have hnd := match_snd_nodup s1 s2 md off
  unfold matchIdx at hnd ⊢
  rw [List.map_map] at hnd ⊢
  have hp : (keepBest (rawMatches s1 s2 md off)).Pairwise (fun a b => a.j ≤ b.j) := by
    have hraw : (rawMatches s1 s2 md off).Pairwise (fun a b => a.j ≤ b.j) :=
      List.Pairwise.imp_of_mem
        (fun {a b} ha hb hab => raw_snd_monotone s1 s2 md off h1 h2 a b ha hb hab)
        (rawGo_fst_lt s2 md off s1 0)
    exact hraw.sublist (keepBest_sublist _)
  refine List.pairwise_map.mpr ?_
  have hnd' := List.pairwise_map.mp hnd
  refine (hp.and hnd').imp ?_
  intro a b h
  simp only [Function.comp] at h ⊢
  omega

/-! ### `associate_trajectories` -/

theorem zip_map_fst_snd {α β} (m : List (α × β)) : List.zip (m.map Prod.fst) (m.map Prod.snd) = m := by
  induction m with
  | nil => rfl
  | cons x xs ih => simp [ih]

theorem zip_map_snd_fst {α β} (m : List (α × β)) :
    List.zip (m.map Prod.snd) (m.map Prod.fst) = m.map Prod.swap := by
  induction m with
  | nil => rfl
  | cons x xs ih => simp [ih, Prod.swap]

/-- the two synchronized trajectories have equally many poses -/
theorem associate_equal_length (t1 t2 : List Rat) (md off : Rat) (a b : List Nat)
    (h : associateIds t1 t2 md off = .ok (a, b)) : a.length = b.length := by
  unfold associateIds at h
  simp only at h
  split at h <;> split at h
  all_goals first
    | (injection h with h; injection h with h1 h2; subst h1 h2; simp)
    | cases h

/-- nothing matches ↔ the synchronization error is raised -/
theorem associate_refuses_empty (t1 t2 : List Rat) (md off : Rat) :
    associateIds t1 t2 md off = .error .sync ↔
      (if t2.length > t1.length then matchIdx t1 t2 md off else matchIdx t2 t1 md (-off)) = [] := by
  unfold associateIds
  by_cases hl : t2.length > t1.length
  · simp only [hl, if_true]
    by_cases he : matchIdx t1 t2 md off = []
    · simp [he]
    · simp [he]
  · simp only [hl, if_false]
    by_cases he : matchIdx t2 t1 md (-off) = []
    · simp [he]
    · simp [he]

theorem absR_sub_comm (a b : Rat) : absR (a - b) = absR (b - a) := by
  rw [absR_eq_abs, absR_eq_abs, abs_sub_comm]

/-- **|t₁ − (t₂ + offset)| ≤ max_diff for every pair, whichever input is the longer one** -/
theorem associate_offset_both_orderings (t1 t2 : List Rat) (md off : Rat) (a b : List Nat)
    (h : associateIds t1 t2 md off = .ok (a, b)) :
    ∀ p ∈ List.zip a b, ∃ (hi : p.1 < t1.length) (hj : p.2 < t2.length),
      absR (t1[p.1] - (t2[p.2] + off)) ≤ md := by
  unfold associateIds at h
  by_cases hl : t2.length > t1.length
  · simp only [hl, if_true] at h
    split at h
    · cases h
    · injection h with h; injection h with h1 h2; subst h1 h2
      rw [zip_map_fst_snd]
      intro p hp
      obtain ⟨hi, hj, hle, _, _⟩ := match_within_and_nearest t1 t2 md off p hp
      refine ⟨hi, hj, ?_⟩
      rw [absR_sub_comm]; exact hle
  · simp only [hl, if_false] at h
    split at h
    · cases h
    · injection h with h; injection h with h1 h2; subst h1 h2
      rw [zip_map_snd_fst]
      intro p hp
      obtain ⟨q, hq, rfl⟩ := List.mem_map.mp hp
      obtain ⟨hi, hj, hle, _, _⟩ := match_within_and_nearest t2 t1 md (-off) q hq
      refine ⟨hj, hi, ?_⟩
      simp only [Prod.swap]
      unfold dist at hle
      have e : t1[q.2] - (t2[q.1] + off) = t1[q.2] + -off - t2[q.1] := by ring
      rw [e]; exact hle

theorem mem_reduceIds {α} (l : List α) (ids : List Nat) (x : α) (hx : x ∈ reduceIds l ids) : x ∈ l := by
  unfold reduceIds at hx
  obtain ⟨i, _, hi⟩ := List.mem_filterMap.mp hx
  exact List.mem_of_getElem? hi

/-- **the k-th poses are unmodified copies of one pose of each input, pose and timestamp
together**: the outputs are index selections of the inputs. -/
theorem associate_poses_are_input_poses {α} (tr1 tr2 : List (Rat × α)) (md off : Rat)
    (o1 o2 : List (Rat × α)) (h : associate tr1 tr2 md off = .ok (o1, o2)) :
    (∃ ids1 ids2, associateIds (tr1.map Prod.fst) (tr2.map Prod.fst) md off = .ok (ids1, ids2) ∧
      o1 = reduceIds tr1 ids1 ∧ o2 = reduceIds tr2 ids2) ∧
    (∀ x ∈ o1, x ∈ tr1) ∧ (∀ x ∈ o2, x ∈ tr2) := by
  unfold associate at h
  split at h
  · cases h
  · next i1 i2 heq =>
    injection h with h; injection h with h1 h2; subst h1 h2
    exact ⟨⟨i1, i2, heq, rfl, rfl⟩, fun x hx => mem_reduceIds _ _ x hx, fun x hx => mem_reduceIds _ _ x hx⟩

/-! ### finding F8: the pinned code uses one pose twice -/

/-- stamps `[0, 1/10]` vs `[1/20, 5, 6]`, `maxDiff = 3/50`: the code before the repair pairs
both driving poses with counterpart 0. -/
theorem match_snd_dup_counterexample :
    matchOld [0, 1/10] [1/20, 5, 6] (3/50) 0 = [(0, 0), (1, 0)] := by decide +kernel

theorem match_snd_dup_repaired :
    matchIdx [0, 1/10] [1/20, 5, 6] (3/50) 0 = [(0, 0)] := by decide +kernel

/-! ### non-vacuity: the hypotheses above are met by concrete non-trivial instances -/

example : matchIdx [1, 2, 4] [9/10, 21/10, 3, 41/10, 7] (1/5) 0 = [(0, 0), (1, 1), (2, 3)] := by
  decide +kernel
example : associateIds [9/10, 21/10, 3, 41/10, 7] [1, 2, 4] (1/5) (1/10) = .ok ([0, 1, 3], [0, 1, 2]) := by
  decide +kernel
example : associateIds [1, 2] [10, 11, 12] (1/5) 0 = .error .sync := by decide +kernel
example : ([1, 2, 4] : List Rat).Pairwise (· < ·) := by decide +kernel

end Evo.C05
