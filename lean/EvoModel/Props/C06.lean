/-
C06 — writing and re-reading is lossless.  Theorems about binary64 ↔ decimal text
(Lemmas/F64.lean), the text layout model (Model/TextFormats.lean), Python's JSON string escaping
(Model/Json.lean) and the regenerated table of the writers' number formats (Gen/Formats.lean).
-/
import EvoModel.Model.TextFormats
import EvoModel.Model.Json
import EvoModel.Gen.Formats
import EvoModel.Lemmas.F64
import EvoModel.Lemmas.TextFormats
import EvoModel.Lemmas.Json
import EvoModel.Props.C07
namespace Evo.C06
open Evo Evo.Text Evo.F64

/-- T: both `np.savetxt` calls of file_interface.py (TUM and KITTI writers, nothing else) print in
scientific notation with at least 18 significant digits (today `%.18e`: 19 digits). -/
def losslessFmt (s : String) : Bool :=
  match fmtSpec s.toList with
  | some (true, d) => decide (18 ≤ d)
  | _ => false

theorem savetxt_formats_lossless :
    Evo.Gen.savetxtFormats.map (·.1) = ["write_tum_trajectory_file", "write_kitti_poses_file"] ∧
    ∀ f ∈ Evo.Gen.savetxtFormats, losslessFmt f.2 = true := by
  decide +kernel

/-- For **every** binary64 value `x` (subnormals, 0, the largest finite double) and every rational
`y` within relative distance 2⁻⁵⁵ of it, any round-to-nearest conversion of `y` returns `x`. -/
theorem f64_roundtrip_of_close (x y r : ℚ) (hx : IsF64 x) (hc : Close x y)
    (hr : IsNearestF64 y r) : r = x := nearest_of_close hx hc hr

/-- A decimal correctly rounded to `d ≥ 18` significant digits is that close. -/
theorem digits_suffice (x y : ℚ) (k : ℤ) (d : ℕ) (hd : 18 ≤ d) (hk : (10 : ℚ) ^ k ≤ |x|)
    (hy : |y - x| ≤ (10 : ℚ) ^ (k + 1 - d) / 2) : Close x y :=
  F64.digits_suffice x y k d hd hk hy

/-- The closeness test the driver runs on every token evo writes is the relation of the theorems. -/
theorem close_sound (x y : ℚ) : Text.close x y = true ↔ Close x y := by
  unfold Text.close Close
  rw [decide_eq_true_iff, absR_eq_abs, absR_eq_abs, le_div_iff₀ (by positivity)]
  norm_num

/-- what each run checks for every number `x` evo writes as token `tok x` (driver op `tokrows`) -/
def TokenOK (tok : Rat → Str) (x : Rat) : Prop :=
  IsF64 x ∧ inGrammar (tok x) = true ∧ ∃ y, parseDec (tok x) = some y ∧ Text.close x y = true

/-- the executable rounding is a round-to-nearest that does not overflow near binary64 values -/
def RneNearest : Prop :=
  ∀ y : ℚ, (∀ r, F64.rne y = some r → IsNearestF64 y r) ∧
    ((∃ x, IsF64 x ∧ Close x y) → (F64.rne y).isSome = true)

theorem goodTok_of_tokenOK (hR : RneNearest) (tok : Rat → Str) (x : Rat) (h : TokenOK tok x) :
    GoodTok tok x := by
  obtain ⟨hx, hg, y, hy, hc⟩ := h
  have hc' := (close_sound x y).mp hc
  obtain ⟨h1, h2⟩ := hR y
  obtain ⟨r, hr⟩ := Option.isSome_iff_exists.mp (h2 ⟨x, hx, hc'⟩)
  have : r = x := nearest_of_close hx hc' (h1 r hr)
  exact ⟨hg, y, hy, this ▸ hr⟩

/-- TUM write → read: same number and order of poses, every stamp / coordinate / quaternion
component the identical binary64 value — for every trajectory of binary64 values and every token
function passing the per-token check.  `_partial`: assumes `RneNearest` (that the executable
`F64.rne` is a round-to-nearest), which is validated against CPython on every run and proved in
Lemmas/F64Rne.lean as far as stated there. -/
theorem tum_roundtrip_partial (hR : RneNearest) (tok : Rat → Str) (p0 : StampedPose) (ps : List StampedPose)
    (h : ∀ p ∈ p0 :: ps, ∀ x ∈ tumRow p, TokenOK tok x) :
    readTum (layoutTum tok (p0 :: ps)) = .ok (p0 :: ps) :=
  Evo.C07.layout_then_read tok p0 ps fun p hp x hx => goodTok_of_tokenOK hR tok x (h p hp x hx)

theorem kitti_roundtrip_partial (hR : RneNearest) (tok : Rat → Str) (p0 : Mat34) (ps : List Mat34)
    (h : ∀ p ∈ p0 :: ps, ∀ x ∈ kittiRow p, TokenOK tok x) :
    readKitti (layoutKitti tok (p0 :: ps)) = .ok (p0 :: ps) :=
  Evo.C07.layout_then_read_kitti tok p0 ps fun p hp x hx => goodTok_of_tokenOK hR tok x (h p hp x hx)

/-- `json.loads(json.dumps(s)) = s` for every string of Unicode scalar values (info strings and
dictionary keys of result archives): control characters, quotes, backslashes, BMP and astral
characters (surrogate pairs). -/
theorem json_string_roundtrip (s : List Char) : Json.unescape (Json.escape s) = some s :=
  Json.unescape_escape s

/-- a JSON / text token that converts back to `x` round-trips, whatever its spelling (`repr`) -/
theorem json_number_roundtrip (x y r : ℚ) (hx : IsF64 x) (hc : Close x y) (hr : IsNearestF64 y r) :
    r = x := nearest_of_close hx hc hr

/-! ### non-vacuity -/
example : IsF64 (3602879701896397 / 36028797018963968) :=
  ⟨3602879701896397, -55, by norm_num, by norm_num, by norm_num, by norm_num⟩
/-- the token `%.18e` prints for the double 0.1 is inside the grammar and close -/
example : inGrammar "1.000000000000000056e-01".toList = true ∧
    Text.close (3602879701896397 / 36028797018963968) (1000000000000000056 / 10000000000000000000) = true ∧
    parseDec "1.000000000000000056e-01".toList = some (1000000000000000056 / 10000000000000000000) ∧
    F64.rne (1000000000000000056 / 10000000000000000000) = some (3602879701896397 / 36028797018963968) := by
  decide +kernel
/-- an 8-digit token is not -/
example : Text.close (3602879701896397 / 36028797018963968) (1 / 10) = false := by decide +kernel
example : Json.escape "a\"\\\n\x01é😀".toList = "a\\\"\\\\\\n\\u0001\\u00e9\\ud83d\\ude00".toList := by decide +kernel
example : losslessFmt "%.18e" = true ∧ losslessFmt "%.9f" = false ∧ losslessFmt "%.8e" = false ∧
    losslessFmt "%.16e" = false ∧ losslessFmt "<dynamic>" = false := by decide +kernel
/-- bag stamps: an epoch stamp with a nanosecond fraction comes back within 1 ns (here: 2⁻²² s off) -/
example : bagSplit (6291456000517815 / 4194304) = some (1500000000, 123456716) ∧
    bagJoin 1500000000 123456716 = some (6291456000517815 / 4194304) := by decide +kernel

end Evo.C06
