/-
C06 — writing and re-reading is lossless.  Theorems about binary64 ↔ decimal text
(Lemmas/F64.lean), the text layout model (Model/TextFormats.lean), Python's JSON string escaping
(Model/Json.lean) and the regenerated table of the writers' number formats (Gen/Formats.lean).
-/
import EvoModel.Model.TextFormats
import EvoModel.Model.Json
import EvoModel.Gen.Formats
import EvoModel.Lemmas.F64
import EvoModel.Lemmas.TextFormats
import EvoModel.Lemmas.Json
import EvoModel.Props.C07
namespace Evo.C06
open Evo Evo.Text Evo.F64

/-- T: both `np.savetxt` calls of file_interface.py (TUM and KITTI writers, nothing else) print in
scientific notation with at least 18 significant digits (today `%.18e`: 19 digits). -/
def losslessFmt (s : String) : Bool :=
  match fmtSpec s.toList with
  | some (true, d) => decide (18 ≤ d)
  | _ => false

theorem savetxt_formats_lossless :
    Evo.Gen.savetxtFormats.map (·.1) = ["write_tum_trajectory_file", "write_kitti_poses_file"] ∧
    ∀ f ∈ Evo.Gen.savetxtFormats, losslessFmt f.2 = true := by
  decide +kernel

/-- For **every** binary64 value `x` (subnormals, 0, the largest finite double) and every rational
`y` within relative distance 2⁻⁵⁵ of it, any round-to-nearest conversion of `y` returns `x`. -/
theorem f64_roundtrip_of_close (x y r : ℚ) (hx : IsF64 x) (hc : Close x y)
    (hr : IsNearestF64 y r) : r = x := nearest_of_close hx hc hr

/-- A decimal correctly rounded to `d ≥ 18` significant digits is that close. -/
theorem digits_suffice (x y : ℚ) (k : ℤ) (d : ℕ) (hd : 18 ≤ d) (hk : (10 : ℚ) ^ k ≤ |x|)
    (hy : |y - x| ≤ (10 : ℚ) ^ (k + 1 - d) / 2) : Close x y :=
  F64.digits_suffice x y k d hd hk hy

/-- The closeness test the driver runs on every token evo writes is the relation of the theorems. -/
theorem close_sound (x y : ℚ) : Text.close x y = true ↔ Close x y := by
  unfold Text.close Close
  rw [decide_eq_true_iff, absR_eq_abs, absR_eq_abs, le_div_iff₀ (by positivity)]
  norm_num

/-- what each run checks for every number `x` evo writes as token `tok x` (driver op `tokrows`) -/
def TokenOK (tok : Rat → Str) (x : Rat) : Prop :=
  IsF64 x ∧ inGrammar (tok x) = true ∧ ∃ y, parseDec (tok x) = some y ∧ Text.close x y = true

/-- The executable rounding `F64.rne` of the model (used by every reader of the model and by
`linspace` in C11) really returns a binary64 value nearest to its argument. -/
theorem rne_nearest (y r : ℚ) (h : F64.rne y = some r) : IsNearestF64 y r := F64.rne_nearest y r h

/-- text → double: every rational within 2⁻⁵⁵ (relative) of a binary64 value `x` is rounded to
exactly `x` by the model's `rne` — no overflow, subnormals and the largest double included. -/
theorem rne_roundtrip_of_close (x y : ℚ) (hx : IsF64 x) (hc : Close x y) : F64.rne y = some x := by
  obtain ⟨r, hr⟩ := Option.isSome_iff_exists.mp (F64.rne_isSome_of_close x y hx hc)
  rw [hr, nearest_of_close hx hc (F64.rne_nearest y r hr)]

/-- `rne` is the identity on binary64 values -/
theorem rne_id_on_f64 (x : ℚ) (hx : IsF64 x) : F64.rne x = some x :=
  rne_roundtrip_of_close x x hx (by unfold Close; simp; positivity)

theorem goodTok_of_tokenOK (tok : Rat → Str) (x : Rat) (h : TokenOK tok x) : GoodTok tok x := by
  obtain ⟨hx, hg, y, hy, hc⟩ := h
  exact ⟨hg, y, hy, rne_roundtrip_of_close x y hx ((close_sound x y).mp hc)⟩

/-- TUM write → read: same number and order of poses, every stamp / coordinate / quaternion
component the identical binary64 value — for every trajectory of binary64 values and every
number → token function passing the per-token check that each run performs on every token evo
writes (literal of the grammar, within 2⁻⁵⁵ of its double). -/
theorem tum_roundtrip (tok : Rat → Str) (p0 : StampedPose) (ps : List StampedPose)
    (h : ∀ p ∈ p0 :: ps, ∀ x ∈ tumRow p, TokenOK tok x) :
    readTum (layoutTum tok (p0 :: ps)) = .ok (p0 :: ps) :=
  Evo.C07.layout_then_read tok p0 ps fun p hp x hx => goodTok_of_tokenOK tok x (h p hp x hx)

/-- KITTI write → read: every matrix entry identical, rows in order. -/
theorem kitti_roundtrip (tok : Rat → Str) (p0 : Mat34) (ps : List Mat34)
    (h : ∀ p ∈ p0 :: ps, ∀ x ∈ kittiRow p, TokenOK tok x) :
    readKitti (layoutKitti tok (p0 :: ps)) = .ok (p0 :: ps) :=
  Evo.C07.layout_then_read_kitti tok p0 ps fun p hp x hx => goodTok_of_tokenOK tok x (h p hp x hx)

/-- `json.loads(json.dumps(s)) = s` for every string of Unicode scalar values (info strings and
dictionary keys of result archives): control characters, quotes, backslashes, BMP and astral
characters (surrogate pairs). -/
theorem json_string_roundtrip (s : List Char) : Json.unescape (Json.escape s) = some s :=
  Json.unescape_escape s

/-- a number token of `stats.json` (or of any text file) that is a literal within 2⁻⁵⁵ of the
binary64 value `x` — whatever its spelling (`repr` prints the shortest such) — is read back as `x` -/
theorem json_number_roundtrip (tok : Str) (x y : ℚ) (hx : IsF64 x) (hp : parseDec tok = some y)
    (hc : Text.close x y = true) : (parseDec tok).bind F64.rne = some x := by
  rw [hp]; exact rne_roundtrip_of_close x y hx ((close_sound x y).mp hc)

/-- `_partial` (of `bag_stamp_error`): whole-second stamps `0 ≤ k < 2⁵³` pass through the
`sec/nanosec` split and the reassembly `sec + nanosec·1e-9` exactly.  The bound `|x' − x| ≤ 1 ns`
for all stamps is not proved: it is validated on every generated stamp by each run. -/
theorem bag_stamp_error_partial (k : ℕ) (hk : k < 2 ^ 53) :
    bagSplit (k : ℚ) = some ((k : ℤ), 0) ∧ bagJoin (k : ℤ) 0 = some (k : ℚ) := by
  have hid : F64.rne (k : ℚ) = some (k : ℚ) :=
    rne_id_on_f64 _ ⟨(k : ℤ), 0, by rw [abs_of_nonneg (by positivity)]; exact_mod_cast hk, by norm_num, by norm_num, by simp⟩
  constructor
  · unfold bagSplit
    have hfl : (k : ℚ).floor = (k : ℤ) := by
      have : ((k : ℤ) : ℚ) = (k : ℚ) := by simp
      rw [← this]; exact Rat.floor_intCast _
    simp only [hfl]
    have : (k : ℚ) - ((k : ℤ) : ℚ) = 0 := by simp
    rw [this, rne_zero]
    simp only [zero_mul, rne_zero]
    have h0 : Rat.floor 0 = 0 := by decide +kernel
    simp [h0]
  · unfold bagJoin
    cases hc : F64.rne (mkRat 1 1000000000) with
    | none => exact absurd hc (by decide +kernel)
    | some c =>
      simp only [Int.cast_zero, zero_mul, rne_zero, add_zero]
      simpa using hid
/-! ### non-vacuity -/
example : IsF64 (3602879701896397 / 36028797018963968) :=
  ⟨3602879701896397, -55, by norm_num, by norm_num, by norm_num, by norm_num⟩
/-- the token `%.18e` prints for the double 0.1 is inside the grammar and close -/
example : inGrammar "1.000000000000000056e-01".toList = true ∧
    Text.close (3602879701896397 / 36028797018963968) (1000000000000000056 / 10000000000000000000) = true ∧
    parseDec "1.000000000000000056e-01".toList = some (1000000000000000056 / 10000000000000000000) ∧
    F64.rne (1000000000000000056 / 10000000000000000000) = some (3602879701896397 / 36028797018963968) := by
  decide +kernel
/-- an 8-digit token is not -/
example : Text.close (3602879701896397 / 36028797018963968) (1 / 10) = false := by decide +kernel
example : Json.escape "a\"\\\n\x01é😀".toList = "a\\\"\\\\\\n\\u0001\\u00e9\\ud83d\\ude00".toList := by decide +kernel
example : losslessFmt "%.18e" = true ∧ losslessFmt "%.9f" = false ∧ losslessFmt "%.8e" = false ∧
    losslessFmt "%.16e" = false ∧ losslessFmt "<dynamic>" = false := by decide +kernel
example : bagSplit 1500000000 = some (1500000000, 0) ∧ bagJoin 1500000000 0 = some 1500000000 := by decide +kernel
/-- bag stamps: an epoch stamp with a nanosecond fraction comes back within 1 ns (here: 2⁻²² s off) -/
example : bagSplit (6291456000517815 / 4194304) = some (1500000000, 123456716) ∧
    bagJoin 1500000000 123456716 = some (6291456000517815 / 4194304) := by decide +kernel

end Evo.C06
