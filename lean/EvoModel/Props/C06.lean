/-
C06 — writing and re-reading is lossless.  Theorems about binary64 ↔ decimal text
(Lemmas/F64.lean), the text layout model (Model/TextFormats.lean), Python's JSON string escaping
(Model/Json.lean) and the regenerated table of the writers' number formats (Gen/Formats.lean).
-/
import EvoModel.Model.TextFormats
import EvoModel.Model.Json
import EvoModel.Gen.Formats
import EvoModel.Lemmas.F64
import EvoModel.Lemmas.TextFormats
import EvoModel.Lemmas.Json
import EvoModel.Lemmas.Bag
import EvoModel.Lemmas.Containers
import EvoModel.Gen.DfColumns
import EvoModel.Props.C07
namespace Evo.C06
open Evo Evo.Text Evo.F64

/-- T: both `np.savetxt` calls of file_interface.py (TUM and KITTI writers, nothing else) print in
scientific notation with at least 18 significant digits (today `%.18e`: 19 digits). -/
def losslessFmt (s : String) : Bool :=
  match fmtSpec s.toList with
  | some (true, d) => decide (18 ≤ d)
  | _ => false

theorem savetxt_formats_lossless :
    Evo.Gen.savetxtFormats.map (·.1) = ["write_tum_trajectory_file", "write_kitti_poses_file"] ∧
    ∀ f ∈ Evo.Gen.savetxtFormats, losslessFmt f.2 = true := by
  decide +kernel

/-- For **every** binary64 value `x` (subnormals, 0, the largest finite double) and every rational
`y` within relative distance 2⁻⁵⁵ of it, any round-to-nearest conversion of `y` returns `x`. -/
theorem f64_roundtrip_of_close (x y r : ℚ) (hx : IsF64 x) (hc : Close x y)
    (hr : IsNearestF64 y r) : r = x := nearest_of_close hx hc hr

/-- A decimal correctly rounded to `d ≥ 18` significant digits is that close. -/
theorem digits_suffice (x y : ℚ) (k : ℤ) (d : ℕ) (hd : 18 ≤ d) (hk : (10 : ℚ) ^ k ≤ |x|)
    (hy : |y - x| ≤ (10 : ℚ) ^ (k + 1 - d) / 2) : Close x y :=
  F64.digits_suffice x y k d hd hk hy

/-- The closeness test the driver runs on every token evo writes is the relation of the theorems. -/
theorem close_sound (x y : ℚ) : Text.close x y = true ↔ Close x y := by
  unfold Text.close Close
  rw [decide_eq_true_iff, absR_eq_abs, absR_eq_abs, le_div_iff₀ (by positivity)]
  norm_num

/-- what each run checks for every number `x` evo writes as token `tok x` (driver op `tokrows`) -/
def TokenOK (tok : Rat → Str) (x : Rat) : Prop :=
  IsF64 x ∧ inGrammar (tok x) = true ∧ ∃ y, parseDec (tok x) = some y ∧ Text.close x y = true

/-- The executable rounding `F64.rne` of the model (used by every reader of the model and by
`linspace` in C11) really returns a binary64 value nearest to its argument. -/
theorem rne_nearest (y r : ℚ) (h : F64.rne y = some r) : IsNearestF64 y r := F64.rne_nearest y r h

/-- text → double: every rational within 2⁻⁵⁵ (relative) of a binary64 value `x` is rounded to
exactly `x` by the model's `rne` — no overflow, subnormals and the largest double included. -/
theorem rne_roundtrip_of_close (x y : ℚ) (hx : IsF64 x) (hc : Close x y) : F64.rne y = some x :=
  F64.rne_eq_of_close x y hx hc

/-- `rne` is the identity on binary64 values -/
theorem rne_id_on_f64 (x : ℚ) (hx : IsF64 x) : F64.rne x = some x := F64.rne_id x hx

theorem goodTok_of_tokenOK (tok : Rat → Str) (x : Rat) (h : TokenOK tok x) : GoodTok tok x := by
  obtain ⟨hx, hg, y, hy, hc⟩ := h
  exact ⟨hg, y, hy, rne_roundtrip_of_close x y hx ((close_sound x y).mp hc)⟩

/-- TUM write → read: same number and order of poses, every stamp / coordinate / quaternion
component the identical binary64 value — for every trajectory of binary64 values and every
number → token function passing the per-token check that each run performs on every token evo
writes (literal of the grammar, within 2⁻⁵⁵ of its double). -/
theorem tum_roundtrip (tok : Rat → Str) (p0 : StampedPose) (ps : List StampedPose)
    (h : ∀ p ∈ p0 :: ps, ∀ x ∈ tumRow p, TokenOK tok x) :
    readTum (layoutTum tok (p0 :: ps)) = .ok (p0 :: ps) :=
  Evo.C07.layout_then_read tok p0 ps fun p hp x hx => goodTok_of_tokenOK tok x (h p hp x hx)

/-- KITTI write → read: every matrix entry identical, rows in order. -/
theorem kitti_roundtrip (tok : Rat → Str) (p0 : Mat34) (ps : List Mat34)
    (h : ∀ p ∈ p0 :: ps, ∀ x ∈ kittiRow p, TokenOK tok x) :
    readKitti (layoutKitti tok (p0 :: ps)) = .ok (p0 :: ps) :=
  Evo.C07.layout_then_read_kitti tok p0 ps fun p hp x hx => goodTok_of_tokenOK tok x (h p hp x hx)

/-- `json.loads(json.dumps(s)) = s` for every string of Unicode scalar values (info strings and
dictionary keys of result archives): control characters, quotes, backslashes, BMP and astral
characters (surrogate pairs). -/
theorem json_string_roundtrip (s : List Char) : Json.unescape (Json.escape s) = some s :=
  Json.unescape_escape s

/-- a number token of `stats.json` (or of any text file) that is a literal within 2⁻⁵⁵ of the
binary64 value `x` — whatever its spelling (`repr` prints the shortest such) — is read back as `x` -/
theorem json_number_roundtrip (tok : Str) (x y : ℚ) (hx : IsF64 x) (hp : parseDec tok = some y)
    (hc : Text.close x y = true) : (parseDec tok).bind F64.rne = some x := by
  rw [hp]; exact rne_roundtrip_of_close x y hx ((close_sound x y).mp hc)

/-- **ROS1 bag stamps, every stamp, literal clause.**  For every binary64 stamp `0 ≤ x < 2³¹`:
`write_bag_trajectory` (evo, after the repair of F14) stores `sec = int(stamp // 1)` and
`nanosec = int(round((stamp − sec)·1e9))` (`stamp − sec` is exact in binary64: `F64.isF64_fract`;
the product is rounded; `round` is half-even) with the carry `10⁹ → (sec + 1, 0)`, so that
`0 ≤ nanosec < 10⁹` and the header represents `x` to within 0.5 ns + 2⁻⁵² s; rosbags stores and
returns the two unsigned integers unchanged; `read_bag_trajectory` (evo) computes
`x' = rne(sec + rne(nanosec · rne(10⁻⁹)))`.  Then `x'` is a binary64 value with `|x' − x| ≤ 1 ns`. -/
theorem bag_stamp_error (x : ℚ) (hx : IsF64 x) (h0 : 0 ≤ x) (h31 : x < 2 ^ 31) :
    ∃ (sec ns : ℤ) (x' : ℚ), bagSplit x = some (sec, ns) ∧ 0 ≤ ns ∧ ns < 10 ^ 9 ∧
      (sec = ⌊x⌋ ∨ (sec = ⌊x⌋ + 1 ∧ ns = 0)) ∧
      |(sec : ℚ) + (ns : ℚ) / 10 ^ 9 - x| ≤ 1 / (2 * 10 ^ 9) + 2 / 2 ^ 53 ∧
      bagJoin sec ns = some x' ∧ IsF64 x' ∧ |x' - x| ≤ 1 / 10 ^ 9 := by
  obtain ⟨sec, ns, x', h1, h2, h3, h4, h5, h6, h7, h8, -⟩ := F64.bag_roundtrip x hx h0 h31
  exact ⟨sec, ns, x', h1, h2, h3, h4, h5, h6, h7, h8⟩

/-- Stamps whose binary64 spacing `2^e` exceeds 2 ns (`2^(e−1) > 1 ns + 2⁻⁴⁹`: every stamp
`≥ 2²⁴ s`, UNIX-epoch stamps in particular) come back **identical**. -/
theorem bag_stamp_exact_of_coarse (m e : ℤ) (hm : 2 ^ 52 ≤ m) (hm' : m < 2 ^ 53) (he1 : -1074 ≤ e)
    (he2 : e ≤ 971) (h31 : (m : ℚ) * (2 : ℚ) ^ e < 2 ^ 31)
    (hgap : 1 / 10 ^ 9 + 1 / 2 ^ 49 < (2 : ℚ) ^ (e - 1)) :
    ∃ sec ns : ℤ, bagSplit ((m : ℚ) * (2 : ℚ) ^ e) = some (sec, ns) ∧
      bagJoin sec ns = some ((m : ℚ) * (2 : ℚ) ^ e) :=
  F64.bag_exact_of_coarse m e hm hm' he1 he2 h31 hgap

/-- The **pre-repair** code (`nanosec = int((stamp − sec)·1e9)`, truncation: `bagSplitTrunc`) did
not satisfy the clause "timestamps to within one nanosecond" (finding F14): for
`x = 10606899.173131479` (binary64, in `[2²³, 2²⁴)` s, spacing 2⁻²⁹ s ≈ 1.86 ns) truncation
loses 0.52 ns and the reassembled sum rounds to the neighbouring double, 1.86 ns away; the
repaired code returns `x` itself. -/
theorem bag_stamp_1ns_counterexample :
    IsF64 (5694535632571143 / 536870912) ∧
    bagSplitTrunc (5694535632571143 / 536870912) = some (10606899, 173131478) ∧
    bagJoin 10606899 173131478 = some (2847267816285571 / 268435456) ∧
    (1 : ℚ) / 10 ^ 9 < |(2847267816285571 / 268435456 : ℚ) - 5694535632571143 / 536870912| ∧
    bagSplit (5694535632571143 / 536870912) = some (10606899, 173131479) ∧
    bagJoin 10606899 173131479 = some (5694535632571143 / 536870912) := by
  refine ⟨⟨5694535632571143, -29, by norm_num, by norm_num, by norm_num, by norm_num⟩,
    by decide +kernel, by decide +kernel, by norm_num, by decide +kernel, by decide +kernel⟩

/-- **DataFrame.** With the column table `trajectory_to_df` uses and the column names
`df_to_trajectory` selects (both regenerated from pandas_bridge.py on every run),
`df_to_trajectory(trajectory_to_df(t)) = t` for every trajectory and every path: the column ↔ slot
map is a bijection, the index carries the timestamps, a path keeps its integer index. -/
theorem df_roundtrip (t : Cont.Traj) :
    Cont.dfToTrajWith Evo.Gen.dfReaderQuat Evo.Gen.dfReaderPos
      (Cont.trajToDfWith Evo.Gen.dfWriterSlots t) = some t := by
  have h1 : Evo.Gen.dfWriterSlots = Cont.stdSlots := by decide
  have h2 : Evo.Gen.dfReaderQuat = ["qw", "qx", "qy", "qz"] := by decide
  have h3 : Evo.Gen.dfReaderPos = ["x", "y", "z"] := by decide
  rw [h1, h2, h3]; exact Cont.df_roundtrip_std t

/-- **Result archive, member layout.**  `load_res_file(save_res_file(r))` returns the info, the
statistics, every array under its own name in the original order, and — with
`load_trajectories` — every trajectory under its own name with its own content (TUM members
first, then KITTI members, each group in the original order; the same finite map), without
`load_trajectories` none; for all array / trajectory names that are non-empty and contain no `/`
(`Path(...).stem` would cut those) and any member serialisation `ser` with inverse `de`
(`tum_roundtrip`, `kitti_roundtrip`). -/
theorem res_archive_roundtrip {I S A T : Type} (ser : Cont.Kind → T → Str) (de : Cont.Kind → Str → Option T)
    (hde : ∀ k t, de k (ser k t) = some t) (r : Cont.Res I S A T)
    (hA : ∀ e ∈ r.arrays, Cont.ValidName e.1) (hAn : (r.arrays.map (·.1)).Nodup)
    (hT : ∀ e ∈ r.trajs, Cont.ValidName e.1) (hTn : (r.trajs.map (·.1)).Nodup) :
    Cont.loadRes de true (Cont.saveRes ser r) = some ⟨r.info, r.stats, r.arrays,
      (r.trajs.filter fun e => e.2.1 = .tum) ++ (r.trajs.filter fun e => e.2.1 = .kitti)⟩ ∧
    Cont.loadRes de false (Cont.saveRes ser r) = some ⟨r.info, r.stats, r.arrays, []⟩ ∧
    (∀ e, e ∈ (r.trajs.filter fun e => e.2.1 = .tum) ++ (r.trajs.filter fun e => e.2.1 = .kitti) ↔ e ∈ r.trajs) := by
  obtain ⟨h1, h2⟩ := Cont.res_roundtrip ser de hde r hA hAn hT hTn
  refine ⟨h1, h2, fun e => ?_⟩
  simp only [List.mem_append, List.mem_filter, decide_eq_true_eq]
  constructor
  · rintro (h | h) <;> exact h.1
  · intro h; cases hk : e.2.1
    · exact Or.inl ⟨h, rfl⟩
    · exact Or.inr ⟨h, rfl⟩

/-- archive member names are pairwise different (so `ZipFile.read(name)` is unambiguous) -/
theorem res_member_names_distinct {I S A T : Type} (ser : Cont.Kind → T → Str) (r : Cont.Res I S A T)
    (hAn : (r.arrays.map (·.1)).Nodup) (hTn : (r.trajs.map (·.1)).Nodup) :
    ((Cont.saveRes (I := I) (S := S) ser r).map (·.1)).Nodup := Cont.saveRes_names_nodup ser r hAn hTn

/-! ### non-vacuity -/
example : IsF64 (3602879701896397 / 36028797018963968) :=
  ⟨3602879701896397, -55, by norm_num, by norm_num, by norm_num, by norm_num⟩
/-- the token `%.18e` prints for the double 0.1 is inside the grammar and close -/
example : inGrammar "1.000000000000000056e-01".toList = true ∧
    Text.close (3602879701896397 / 36028797018963968) (1000000000000000056 / 10000000000000000000) = true ∧
    parseDec "1.000000000000000056e-01".toList = some (1000000000000000056 / 10000000000000000000) ∧
    F64.rne (1000000000000000056 / 10000000000000000000) = some (3602879701896397 / 36028797018963968) := by
  decide +kernel
/-- an 8-digit token is not -/
example : Text.close (3602879701896397 / 36028797018963968) (1 / 10) = false := by decide +kernel
example : Json.escape "a\"\\\n\x01é😀".toList = "a\\\"\\\\\\n\\u0001\\u00e9\\ud83d\\ude00".toList := by decide +kernel
example : losslessFmt "%.18e" = true ∧ losslessFmt "%.9f" = false ∧ losslessFmt "%.8e" = false ∧
    losslessFmt "%.16e" = false ∧ losslessFmt "<dynamic>" = false := by decide +kernel
example : bagSplit 1500000000 = some (1500000000, 0) ∧ bagJoin 1500000000 0 = some 1500000000 := by decide +kernel
/-- the carry: 7.9999999996 → (8, 0) → 8.0, 0.4 ns away -/
example : bagSplit (1125899906786329 / 140737488355328) = some (8, 0) ∧ bagJoin 8 0 = some 8 := by decide +kernel
/-- a long TUM member, a shorter TUM member, a KITTI member; unicode names; names ending in another suffix -/
example : (Cont.loadRes (I := Unit) (S := Unit) (A := Nat) (T := Str) (fun _ s => some s) true
      (Cont.saveRes (fun _ t => t) ⟨(), (), [("err".toList, 1), ("x.tum".toList, 2)],
        [("long é".toList, .tum, "1 2\n3 4\n".toList), ("p.npy".toList, .kitti, "9\n".toList),
         ("位置".toList, .tum, "5\n".toList)]⟩)).map
      (fun r => (r.arrays.map (fun e => String.ofList e.1), r.trajs.map (fun e => (String.ofList e.1, String.ofList e.2.2))))
    = some (["err", "x.tum"], [("long é", "1 2\n3 4\n"), ("位置", "5\n"), ("p.npy", "9\n")]) := by
  decide +kernel
/-- a name with `/` is outside the domain: `Path(...).stem` cuts it -/
example : Cont.stem "dir/x.tum".toList = "x".toList ∧ Cont.stem ".tum".toList = ".tum".toList := by decide +kernel
example : Cont.dfToTrajWith Evo.Gen.dfReaderQuat Evo.Gen.dfReaderPos (Cont.trajToDfWith Evo.Gen.dfWriterSlots
    (.timed [10, 11] [⟨1, 2, 3, 4, 5, 6, 7⟩, ⟨8, 9, 10, 11, 12, 13, 14⟩]))
    = some (.timed [10, 11] [⟨1, 2, 3, 4, 5, 6, 7⟩, ⟨8, 9, 10, 11, 12, 13, 14⟩]) := by decide +kernel
/-- bag stamps: an epoch stamp with a nanosecond fraction comes back identical -/
example : bagSplit (6291456000517815 / 4194304) = some (1500000000, 123456717) ∧
    bagJoin 1500000000 123456717 = some (6291456000517815 / 4194304) := by decide +kernel

end Evo.C06
