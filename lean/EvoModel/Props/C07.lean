import EvoModel.Model.TextFormats
namespace Evo.C07
open Evo Evo.Text

/-- TUM slot map: `t x y z qx qy qz qw` ↦ stamp, position, quaternion stored as `(w, x, y, z)`. -/
theorem tum_slots (t x y z qx qy qz qw : Rat) :
    tumOfRow [t, x, y, z, qx, qy, qz, qw] = some ⟨t, x, y, z, qw, qx, qy, qz⟩ := rfl

end Evo.C07
