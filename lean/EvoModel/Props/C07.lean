/-
C07 — readers/writers follow the published conventions; malformed files are rejected.
Theorems about the executable model `Evo.Text` (Model/TextFormats.lean) of
`evo/tools/file_interface.py`; the model is tied to /repo by `./check C07`.
-/
import EvoModel.Model.TextFormats
import EvoModel.Lemmas.TextFormats
import Mathlib.Algebra.Order.Field.Rat
import Mathlib.Algebra.Order.Ring.Rat
import Mathlib.Tactic.FieldSimp
import Mathlib.Tactic.Ring
import Mathlib.Tactic.Linarith
import Mathlib.Tactic.Positivity
import Mathlib.Tactic.NormNum
import Mathlib.Tactic.LinearCombination
namespace Evo.C07
open Evo Evo.Text

/-! ### slot maps -/

/-- TUM `t x y z qx qy qz qw` ↦ stamp, position, quaternion stored as `(w, x, y, z)`. -/
theorem tum_slots (t x y z qx qy qz qw : Rat) :
    tumOfRow [t, x, y, z, qx, qy, qz, qw] = some ⟨t, x, y, z, qw, qx, qy, qz⟩ := rfl

/-- KITTI: 12 entries are the 3×4 pose matrix, row-major. -/
theorem kitti_slots (a b c d e f g h i j k l : Rat) :
    kittiOfRow [a, b, c, d, e, f, g, h, i, j, k, l] = some ⟨a, b, c, d, e, f, g, h, i, j, k, l⟩ := rfl

/-- EuRoC: `ns, x, y, z, qw, qx, qy, qz, …`: `q_w` first, nanoseconds divided by 10⁹ (one more
rounding), columns after the eighth ignored. -/
theorem euroc_slots (ns x y z qw qx qy qz : Rat) (more : List Rat) :
    eurocOfRow (ns :: x :: y :: z :: qw :: qx :: qy :: qz :: more)
      = some ((F64.rne (ns / 1000000000)).map fun s => ⟨s, x, y, z, qw, qx, qy, qz⟩) := rfl

/-! ### all or nothing -/

/-- If the table reader accepts, the result has exactly one row per data line of the file, in
file order, and every number is the rounding of the literal in the same row and column:
nothing is dropped, reordered, shifted or padded. -/
theorem read_all_or_nothing {d : Char} {w : Nat → Bool} {t : Str} {m : List (List Rat)}
    (h : readTable d w t = .ok m) :
    List.Forall₂ (fun l vals => List.Forall₂ FieldIs (fields d l) vals) (dataLines t) m := by
  obtain ⟨r0, rest, q, hcsv, -, -, hq, hm⟩ := readTable_ok h
  rw [← hcsv, csvRows_eq] at hq
  have h1 := mapOpt_some hq
  have h2 := mapOpt_some hm
  rw [List.forall₂_map_left_iff] at h1
  refine (forall₂_comp h1 h2).imp ?_
  rintro l vals ⟨qs, ha, hb⟩
  exact (forall₂_comp (mapOpt_some ha) (mapOpt_some hb)).imp fun f v ⟨q, h1, h2⟩ => ⟨q, h1, h2⟩

/-- TUM reader: accepted ⇒ one pose per data line, each built from the eight numbers of its line. -/
theorem tum_all_or_nothing {t : Str} {ps : List StampedPose} (h : readTum t = .ok ps) :
    List.Forall₂ (fun l p => ∃ vals, List.Forall₂ FieldIs (fields ' ' l) vals ∧ tumOfRow vals = some p)
      (dataLines t) ps := by
  unfold readTum at h
  split at h
  · cases h
  · rename_i m hm
    split at h
    · cases h
    · rename_i l hl
      cases h
      exact forall₂_comp (read_all_or_nothing hm) (mapOpt_some hl)

theorem tum_row_count {t : Str} {ps : List StampedPose} (h : readTum t = .ok ps) :
    ps.length = (dataLines t).length := (tum_all_or_nothing h).length_eq.symm

/-! ### malformed files are rejected, wherever the defect is -/

/-- A row with a wrong number of columns — in any position — makes the TUM and KITTI readers
fail with the format error; for EuRoC: a row with fewer than 8 columns, or two rows of different
lengths. -/
theorem reject_wrong_column_count_any_row (t : Str) :
    (∀ r ∈ csvRows ' ' t, r.length ≠ 8 → readTum t = .error .format) ∧
    (∀ r ∈ csvRows ' ' t, r.length ≠ 12 → readKitti t = .error .format) ∧
    (∀ r ∈ csvRows ',' t, r.length < 8 → readEuroc t = .error .format) ∧
    (∀ r ∈ csvRows ',' t, ∀ r' ∈ csvRows ',' t, r.length ≠ r'.length → readEuroc t = .error .format) := by
  refine ⟨fun r hr hl => readTum_err (readTable_exact_width hr hl),
    fun r hr hl => readKitti_err (readTable_exact_width hr hl), ?_, ?_⟩
  · intro r hr hl
    apply readEuroc_err
    cases hc : csvRows ',' t with
    | nil => exact readTable_no_rows hc
    | cons r0 rest =>
      by_cases h0 : 8 ≤ r0.length
      · rw [hc] at hr
        rcases List.mem_cons.mp hr with rfl | hr
        · omega
        · exact readTable_ragged hc hr (by omega)
      · exact readTable_bad_width hc (by simpa using h0)
  · intro r hr r' hr' hne
    apply readEuroc_err
    cases hc : csvRows ',' t with
    | nil => exact readTable_no_rows hc
    | cons r0 rest =>
      rw [hc] at hr hr'
      by_cases h1 : r.length = r0.length
      · have h2 : r'.length ≠ r0.length := fun e => hne (h1.trans e.symm)
        rcases List.mem_cons.mp hr' with rfl | hr'
        · exact absurd rfl h2
        · exact readTable_ragged hc hr' h2
      · rcases List.mem_cons.mp hr with rfl | hr
        · exact absurd rfl h1
        · exact readTable_ragged hc hr h1

/-- A field that is not a decimal literal — in any row and column — is fatal for every reader. -/
theorem reject_non_numeric_any_field (t : Str) (d : Char) (r : List Str) (f : Str)
    (hr : r ∈ csvRows d t) (hf : f ∈ r) (hbad : parseDec f = none) :
    (d = ' ' → readTum t = .error .format ∧ readKitti t = .error .format) ∧
    (d = ',' → readEuroc t = .error .format) := by
  refine ⟨?_, ?_⟩
  · rintro rfl
    exact ⟨readTum_err (readTable_non_numeric hr hf hbad), readKitti_err (readTable_non_numeric hr hf hbad)⟩
  · rintro rfl
    exact readEuroc_err (readTable_non_numeric hr hf hbad)

/-- A data line that ends with the delimiter has an empty last field: rejected. -/
theorem reject_trailing_delimiter (t : Str) (l : Str) :
    ((l ++ [' ']) ∈ dataLines t → readTum t = .error .format ∧ readKitti t = .error .format) ∧
    ((l ++ [',']) ∈ dataLines t → readEuroc t = .error .format) := by
  have key : ∀ d : Char, (l ++ [d]) ∈ dataLines t →
      fields d (l ++ [d]) ∈ csvRows d t ∧ [] ∈ fields d (l ++ [d]) := by
    intro d h
    refine ⟨by rw [csvRows_eq]; exact List.mem_map_of_mem h, ?_⟩
    unfold fields
    have : (l ++ [d]).isEmpty = false := by cases l <;> rfl
    rw [this, if_neg (by simp), splitOn_trailing]
    simp
  refine ⟨fun h => ?_, fun h => ?_⟩
  · obtain ⟨h1, h2⟩ := key ' ' h
    exact (reject_non_numeric_any_field t ' ' _ [] h1 h2 parseDec_nil).1 rfl
  · obtain ⟨h1, h2⟩ := key ',' h
    exact (reject_non_numeric_any_field t ',' _ [] h1 h2 parseDec_nil).2 rfl

/-- A blank data row — first, in the middle or as the last line — is rejected. -/
theorem reject_blank_row (t : Str) (h : [] ∈ dataLines t) :
    readTum t = .error .format ∧ readKitti t = .error .format ∧ readEuroc t = .error .format := by
  have hmem : ∀ d : Char, ([] : List Str) ∈ csvRows d t := by
    intro d
    rw [csvRows_eq]
    exact List.mem_map.mpr ⟨[], h, rfl⟩
  have hw := reject_wrong_column_count_any_row t
  exact ⟨hw.1 [] (hmem ' ') (by simp), hw.2.1 [] (hmem ' ') (by simp), hw.2.2.1 [] (hmem ',') (by simp)⟩

/-- No data rows (empty file, only comment lines): rejected. -/
theorem reject_no_rows (t : Str) (h : ∀ l ∈ lines t, isComment l = true) :
    readTum t = .error .format ∧ readKitti t = .error .format ∧ readEuroc t = .error .format := by
  have hd : dataLines t = [] := by
    unfold dataLines
    rw [List.filter_eq_nil_iff]
    intro l hl
    simp [h l hl]
  have hc : ∀ d, csvRows d t = [] := fun d => by rw [csvRows_eq, hd]; rfl
  exact ⟨readTum_err (readTable_no_rows (hc _)), readKitti_err (readTable_no_rows (hc _)),
    readEuroc_err (readTable_no_rows (hc _))⟩

/-! ### what is ignored: comment lines, the byte-order mark, CR before LF -/

/-- A `#` line contributes nothing, wherever it stands: at the beginning of the text or after
any complete line (`a` ends with a newline). -/
theorem comments_ignored (d : Char) (a c b : Str) (hc : isComment c = true) (hnl : '\n' ∉ c) :
    csvRows d (c ++ '\n' :: b) = csvRows d b ∧
    csvRows d ((a ++ ['\n']) ++ (c ++ '\n' :: b)) = csvRows d ((a ++ ['\n']) ++ b) := by
  have first : ∀ b, ((lines (c ++ '\n' :: b)).filter fun l => !isComment l)
      = (lines b).filter fun l => !isComment l := by
    intro b
    rw [lines_cons_line c b hnl]
    simp [List.filter_cons, isComment_stripCR c hc]
  refine ⟨by unfold csvRows; rw [first], ?_⟩
  unfold csvRows
  have e1 : (a ++ ['\n']) ++ (c ++ '\n' :: b) = a ++ '\n' :: (c ++ '\n' :: b) := by simp
  have e2 : (a ++ ['\n']) ++ b = a ++ '\n' :: b := by simp
  rw [e1, e2, lines_append_complete _ a _ (le_refl _), lines_append_complete _ a b (le_refl _)]
  rw [List.filter_append, List.filter_append, first]

/-- A byte-order mark in front of the text is skipped by the path readers; `\r\n` line ends read
like `\n`. -/
theorem bom_crlf_ignored (b : Str) :
    readTumPath ('\uFEFF' :: b) = readTum b ∧ readKittiPath ('\uFEFF' :: b) = readKitti b ∧
    readEurocPath ('\uFEFF' :: b) = readEuroc b ∧
    (∀ l : Str, '\n' ∉ l → l.getLast? ≠ some '\r' →
      lines (l ++ '\r' :: '\n' :: b) = lines (l ++ '\n' :: b)) := by
  refine ⟨rfl, rfl, rfl, ?_⟩
  intro l hl hlast
  have h1 : l ++ '\r' :: '\n' :: b = (l ++ ['\r']) ++ '\n' :: b := by simp
  have hl' : '\n' ∉ l ++ ['\r'] := by
    simp only [List.mem_append, List.mem_singleton, not_or]
    exact ⟨hl, by decide⟩
  rw [h1, lines_cons_line _ b hl', lines_cons_line l b hl]
  congr 1
  unfold stripCR
  simp [hlast]

/-! ### the model reader reads what the writers lay out -/

/-- For every number → token function whose tokens are literals of the grammar that convert
back to the number (checked by the harness for every token evo writes), the TUM reader of the
model returns exactly the trajectory the TUM writer laid out: same poses, same order, every
value in its slot. -/
theorem layout_then_read (tok : Rat → Str) (p0 : StampedPose) (ps : List StampedPose)
    (hg : ∀ p ∈ p0 :: ps, ∀ x ∈ tumRow p, GoodTok tok x) :
    readTum (layoutTum tok (p0 :: ps)) = .ok (p0 :: ps) := by
  have h := readTable_layoutRows tok (· == 8) (tumRow p0) (ps.map tumRow) rfl
    (by intro r hr; obtain ⟨p, -, rfl⟩ := List.mem_map.mp hr; rfl) (by simp [tumRow])
    (by
      intro r hr x hx
      rw [← List.map_cons] at hr
      obtain ⟨p, hp, rfl⟩ := List.mem_map.mp hr
      exact hg p hp x hx)
  unfold readTum layoutTum
  rw [List.map_cons, h]
  have : mapOpt tumOfRow (tumRow p0 :: ps.map tumRow) = some (p0 :: ps) := by
    rw [← List.map_cons]
    exact mapOpt_map_inv fun p _ => tumOfRow_tumRow p
  simp only [this]

theorem layout_then_read_kitti (tok : Rat → Str) (p0 : Mat34) (ps : List Mat34)
    (hg : ∀ p ∈ p0 :: ps, ∀ x ∈ kittiRow p, GoodTok tok x) :
    readKitti (layoutKitti tok (p0 :: ps)) = .ok (p0 :: ps) := by
  have h := readTable_layoutRows tok (· == 12) (kittiRow p0) (ps.map kittiRow) rfl
    (by intro r hr; obtain ⟨p, -, rfl⟩ := List.mem_map.mp hr; rfl) (by simp [kittiRow])
    (by
      intro r hr x hx
      rw [← List.map_cons] at hr
      obtain ⟨p, hp, rfl⟩ := List.mem_map.mp hr
      exact hg p hp x hx)
  unfold readKitti layoutKitti
  rw [List.map_cons, h]
  have : mapOpt kittiOfRow (kittiRow p0 :: ps.map kittiRow) = some (p0 :: ps) := by
    rw [← List.map_cons]
    exact mapOpt_map_inv fun p _ => kittiOfRow_kittiRow p
  simp only [this]

/-! ### JSON transform: slots -/

/-- `x y z` are the translation column, `(qw, qx, qy, qz)` the rotation, `scale` (default 1)
multiplies the rotation block; bottom row `0 0 0 1`. -/
theorem json_slots (m : List (Str × Rat)) (x y z qx qy qz qw sc x' y' z' qx' qy' qz' qw' sc' : Rat)
    (hx : lookupKey "x".toList m = some x) (hy : lookupKey "y".toList m = some y)
    (hz : lookupKey "z".toList m = some z) (hqx : lookupKey "qx".toList m = some qx)
    (hqy : lookupKey "qy".toList m = some qy) (hqz : lookupKey "qz".toList m = some qz)
    (hqw : lookupKey "qw".toList m = some qw) (hs : (lookupKey "scale".toList m).getD 1 = sc)
    (rx : F64.rne x = some x') (ry : F64.rne y = some y') (rz : F64.rne z = some z')
    (rqx : F64.rne qx = some qx') (rqy : F64.rne qy = some qy') (rqz : F64.rne qz = some qz')
    (rqw : F64.rne qw = some qw') (rs : F64.rne sc = some sc') :
    ∃ a b c d e f g h i, quatToRot qw' qx' qy' qz' = [[a, b, c], [d, e, f], [g, h, i]] ∧
      transformOfMap m = .ok [[sc' * a, sc' * b, sc' * c, x'], [sc' * d, sc' * e, sc' * f, y'],
        [sc' * g, sc' * h, sc' * i, z'], [0, 0, 0, 1]] := by
  have hshape : ∃ a b c d e f g h i, quatToRot qw' qx' qy' qz' = [[a, b, c], [d, e, f], [g, h, i]] := by
    unfold quatToRot
    simp only
    split <;> exact ⟨_, _, _, _, _, _, _, _, _, rfl⟩
  obtain ⟨a, b, c, d, e, f, g, h, i, hq⟩ := hshape
  refine ⟨a, b, c, d, e, f, g, h, i, hq, ?_⟩
  unfold transformOfMap
  simp only [hx, hy, hz, hqx, hqy, hqz, hqw, hs, mapOpt, rx, ry, rz, rqx, rqy, rqz, rqw, rs, hq]

/-- one of the seven keys missing ⇒ the format error -/
theorem json_missing_key_rejected (m : List (Str × Rat))
    (h : lookupKey "x".toList m = none ∨ lookupKey "y".toList m = none ∨ lookupKey "z".toList m = none ∨
      lookupKey "qx".toList m = none ∨ lookupKey "qy".toList m = none ∨ lookupKey "qz".toList m = none ∨
      lookupKey "qw".toList m = none) :
    transformOfMap m = .error .format := by
  unfold transformOfMap
  simp only
  split
  · rename_i h1 h2 h3 h4 h5 h6 h7
    rcases h with h | h | h | h | h | h | h <;> simp_all
  · rfl

/-! ### quaternion → rotation -/

/-- `(w, x, y, z)` ↦ the standard rotation matrix: `q` and `−q` give the same matrix; for a
quaternion of non-negligible norm the result is orthonormal with determinant 1; for a unit
quaternion it is the textbook formula; `(1, 0, 0, 1)/√2` is the rotation by +90° about `z`. -/
theorem quat_to_rot_convention (w x y z : Rat) :
    quatToRot (-w) (-x) (-y) (-z) = quatToRot w x y z ∧
    (quatEps ≤ w * w + x * x + y * y + z * z → ∀ a b c d e f g h i : Rat,
      quatToRot w x y z = [[a, b, c], [d, e, f], [g, h, i]] →
      a * a + d * d + g * g = 1 ∧ b * b + e * e + h * h = 1 ∧ c * c + f * f + i * i = 1 ∧
      a * b + d * e + g * h = 0 ∧ a * c + d * f + g * i = 0 ∧ b * c + e * f + h * i = 0 ∧
      a * (e * i - f * h) - b * (d * i - f * g) + c * (d * h - e * g) = 1) ∧
    (w * w + x * x + y * y + z * z = 1 → quatToRot w x y z =
      [[1 - 2 * (y * y) - 2 * (z * z), 2 * (x * y) - 2 * (z * w), 2 * (x * z) + 2 * (y * w)],
       [2 * (x * y) + 2 * (z * w), 1 - 2 * (x * x) - 2 * (z * z), 2 * (y * z) - 2 * (x * w)],
       [2 * (x * z) - 2 * (y * w), 2 * (y * z) + 2 * (x * w), 1 - 2 * (x * x) - 2 * (y * y)]]) ∧
    quatToRot 1 0 0 1 = [[0, -1, 0], [1, 0, 0], [0, 0, 1]] := by
  have heps : (0 : Rat) < quatEps := by unfold quatEps; norm_num
  refine ⟨?_, ?_, ?_, ?_⟩
  · unfold quatToRot
    simp only [neg_mul_neg]
  · intro hn a b c d e f g h i hq
    have hnpos : 0 < w * w + x * x + y * y + z * z := lt_of_lt_of_le heps hn
    have hne : w * w + x * x + y * y + z * z ≠ 0 := ne_of_gt hnpos
    unfold quatToRot at hq
    simp only [if_neg (not_lt.mpr hn)] at hq
    have hsn : 2 / (w * w + x * x + y * y + z * z) * (w * w + x * x + y * y + z * z) = 2 :=
      div_mul_cancel₀ _ hne
    generalize 2 / (w * w + x * x + y * y + z * z) = s at hq hsn
    simp only [List.cons.injEq, and_true] at hq
    obtain ⟨⟨rfl, rfl, rfl⟩, ⟨rfl, rfl, rfl⟩, rfl, rfl, rfl⟩ := hq
    refine ⟨?_, ?_, ?_, ?_, ?_, ?_, ?_⟩
    · linear_combination (s * (y ^ 2 + z ^ 2)) * hsn
    · linear_combination (s * (x ^ 2 + z ^ 2)) * hsn
    · linear_combination (s * (x ^ 2 + y ^ 2)) * hsn
    · linear_combination (-s * x * y) * hsn
    · linear_combination (-s * x * z) * hsn
    · linear_combination (-s * y * z) * hsn
    · linear_combination (s * (x ^ 2 + y ^ 2 + z ^ 2)) * hsn
  · intro hn
    unfold quatToRot
    simp only [hn]
    have : ¬ ((1 : Rat) < quatEps) := by unfold quatEps; norm_num
    simp only [if_neg this]
    norm_num
  · unfold quatToRot quatEps
    norm_num

/-! ### `is_sim3` -/

/-- What acceptance by `is_sim3` means in exact arithmetic: a 4×4 matrix with bottom row
`0 0 0 1`, positive determinant `D` of the 3×3 block, and Gram matrix `RᵀR` within the
`allclose` tolerances of `s²·I` for `s³ = D` (stated without the cube root: both sides cubed).
A matrix violating any of this — wrong bottom row, reflection, zero or sheared or anisotropically
scaled block — is rejected. -/
theorem transform_rejected_if_not_sim3 (m : List (List Rat)) (h : isSim3Tol m = true) :
    (∃ r0 r1 r2 : List Rat, m = [r0, r1, r2, [0, 0, 0, 1]]) ∧ 0 < det3 m ∧
    ∃ dg off, gram3 m = some (dg, off) ∧
      (∀ g ∈ dg, (1 - tolDiag) ^ 3 * (det3 m * det3 m) ≤ g ^ 3 ∧ g ^ 3 ≤ (1 + tolDiag) ^ 3 * (det3 m * det3 m)) ∧
      (∀ g ∈ off, (absR g) ^ 3 ≤ tolOff ^ 3 * (det3 m * det3 m)) := by
  unfold isSim3Tol at h
  split at h
  · rename_i r0 r1 r2 b0 b1 b2 b3 dg off hg
    simp only [Bool.and_eq_true, decide_eq_true_eq, List.all_eq_true] at h
    obtain ⟨⟨⟨⟨rfl, rfl, rfl, rfl⟩, hd⟩, hdg⟩, hoff⟩ := h
    exact ⟨⟨r0, r1, r2, rfl⟩, hd, dg, off, hg, hdg, hoff⟩
  · cases h

/-- Every exact similarity matrix `[sR | t; 0 0 0 1]` (`RᵀR = I`, `det R = 1`, `s > 0`,
written as `MᵀM = s²I`, `det M = s³`) is accepted. -/
theorem sim3_exact_accepted (a b c d e f g h i tx ty tz s : Rat) (hs : 0 < s)
    (h00 : a * a + d * d + g * g = s ^ 2) (h11 : b * b + e * e + h * h = s ^ 2)
    (h22 : c * c + f * f + i * i = s ^ 2) (h01 : a * b + d * e + g * h = 0)
    (h02 : a * c + d * f + g * i = 0) (h12 : b * c + e * f + h * i = 0)
    (hdet : a * (e * i - f * h) - b * (d * i - f * g) + c * (d * h - e * g) = s ^ 3) :
    isSim3Tol [[a, b, c, tx], [d, e, f, ty], [g, h, i, tz], [0, 0, 0, 1]] = true := by
  unfold isSim3Tol gram3 det3
  simp only [h00, h11, h22, h01, h02, h12, hdet]
  have hs3 : 0 < s ^ 3 := by positivity
  have hs6 : 0 ≤ s ^ 3 * s ^ 3 := by positivity
  have e6 : (s ^ 2) ^ 3 = s ^ 3 * s ^ 3 := by ring
  have l1 : (1 - tolDiag) ^ 3 ≤ 1 := by unfold tolDiag; norm_num
  have l2 : 1 ≤ (1 + tolDiag) ^ 3 := by unfold tolDiag; norm_num
  have l3 : 0 ≤ tolOff ^ 3 := by unfold tolOff; norm_num
  have habs : absR (0 : Rat) = 0 := by decide
  simp only [List.all_cons, List.all_nil, Bool.and_true, Bool.and_eq_true, decide_eq_true_eq, e6, habs]
  refine ⟨⟨⟨by simp, hs3⟩, ?_⟩, ?_⟩
  · have h1 : (1 - tolDiag) ^ 3 * (s ^ 3 * s ^ 3) ≤ s ^ 3 * s ^ 3 := by nlinarith
    have h2 : s ^ 3 * s ^ 3 ≤ (1 + tolDiag) ^ 3 * (s ^ 3 * s ^ 3) := by nlinarith
    exact ⟨⟨h1, h2⟩, ⟨h1, h2⟩, h1, h2⟩
  · have : (0 : Rat) ^ 3 ≤ tolOff ^ 3 * (s ^ 3 * s ^ 3) := by
      have := mul_nonneg l3 hs6
      simpa using this
    exact ⟨this, this, this⟩

/-! ### non-vacuity: the hypotheses are met by concrete files -/

deriving instance DecidableEq for Except

/-- comment first, CRLF, every literal spelling: accepted, slots as published -/
example : readTumPath "\uFEFF# t x y z qx qy qz qw\r\n1.5 2. .5 +3 -4E+0 0.1 0e0 1e0\r\n".toList
    = .ok [⟨3/2, 2, 1/2, 3, 1, -4, 3602879701896397/36028797018963968, 0⟩] := by decide +kernel
/-- the defect in a *later* row: short row, long row, non-numeric field, trailing blank, blank line -/
example : readTum "1 2 3 4 0 0 0 1\n1 2 3 4 0 0 0\n".toList = .error .format := by decide +kernel
example : readTum "1 2 3 4 0 0 0 1\n1 2 3 4 0 0 0 1 9\n".toList = .error .format := by decide +kernel
example : readTum "1 2 3 4 0 0 0 1\n1 2 3 4 0 0 x 1\n".toList = .error .format := by decide +kernel
example : readTum "1 2 3 4 0 0 0 1\n1 2 3 4 0 0 0 1 \n".toList = .error .format := by decide +kernel
example : readTum "1 2 3 4 0 0 0 1\n\n1 2 3 4 0 0 0 1\n".toList = .error .format := by decide +kernel
/-- defects that cancel (`reject_wrong_column_count_any_row` speaks about *any* row, so the sum of the
lengths is irrelevant): 7 + 9 entries, a misplaced line break 5 + 11, two joined rows + a blank row 16 + 0 -/
example : readTum "1 2 3 4 0 0 0 1\n1 2 3 4 0 0 0\n1 1 2 3 4 0 0 0 1\n".toList = .error .format := by decide +kernel
example : readTum "1 2 3 4 0 0 0 1\n1 2 3 4 0\n0 0 1 1 2 3 4 0 0 0 1\n".toList = .error .format := by decide +kernel
example : readTum "1 2 3 4 0 0 0 1\n1 2 3 4 0 0 0 1 1 2 3 4 0 0 0 1\n\n".toList = .error .format := by decide +kernel
example : readKitti "1 2 3 4 5 6 7 8 9 10 11 12\n1 2 3 4 5 6 7 8 9 10 11\n12 1 2 3 4 5 6 7 8 9 10 11 12\n".toList
    = .error .format := by decide +kernel
example : readEuroc "1,2,3,4,1,0,0,0\n1,2,3,4,1,0,0,0,9,9\n".toList = .error .format := by decide +kernel
example : readTum "# only a comment\n".toList = .error .format := by decide +kernel
example : readKitti "1 2 3 4 5 6 7 8 9 10 11 12\n".toList = .ok [⟨1, 2, 3, 4, 5, 6, 7, 8, 9, 10, 11, 12⟩] := by
  decide +kernel
/-- EuRoC: nanoseconds → seconds with the double rounding of `np.divide(·, 1e9)` -/
example : readEuroc "#timestamp,p\n1403636580838555648,1,2,3,1,0,0,0,7,7\n".toList
    = .ok [⟨5887278525557477/4194304, 1, 2, 3, 1, 0, 0, 0⟩] := by decide +kernel

/-- a token function satisfying `GoodTok` on the values it is used for, and the round trip -/
def tok01 (x : Rat) : Str := if x = 0 then "0.000000000000000000e+00".toList else "1.000000000000000000e+00".toList
example : GoodTok tok01 0 ∧ GoodTok tok01 1 :=
  ⟨⟨by decide +kernel, 0, by decide +kernel, by decide +kernel⟩,
   ⟨by decide +kernel, 1, by decide +kernel, by decide +kernel⟩⟩
example : readTum (layoutTum tok01 [⟨1, 0, 1, 0, 1, 0, 0, 0⟩, ⟨1, 1, 1, 0, 0, 0, 0, 1⟩])
    = .ok [⟨1, 0, 1, 0, 1, 0, 0, 0⟩, ⟨1, 1, 1, 0, 0, 0, 0, 1⟩] := by decide +kernel

/-- Sim(3): scale 2, rotation by 90° about z accepted; reflection, wrong bottom row, shear rejected -/
example : isSim3Tol [[0, -2, 0, 5], [2, 0, 0, 6], [0, 0, 2, 7], [0, 0, 0, 1]] = true := by decide +kernel
example : isSim3Tol [[-1, 0, 0, 0], [0, 1, 0, 0], [0, 0, 1, 0], [0, 0, 0, 1]] = false := by decide +kernel
example : isSim3Tol [[1, 0, 0, 0], [0, 1, 0, 0], [0, 0, 1, 0], [0, 0, 0, 2]] = false := by decide +kernel
example : isSim3Tol [[1, 1/100, 0, 0], [0, 1, 0, 0], [0, 0, 1, 0], [0, 0, 0, 1]] = false := by decide +kernel
example : loadTransformJson "{\"x\": 1, \"y\": 2.5, \"z\": -3e0, \"qx\": 0, \"qy\": 0, \"qz\": 1, \"qw\": 1, \"scale\": 2}".toList
    = some (.ok [[0, -2, 0, 1], [2, 0, 0, 5/2], [0, 0, 2, -3], [0, 0, 0, 1]]) := by decide +kernel
example : loadTransformJson "{\"x\": 1, \"y\": 2.5, \"qx\": 0, \"qy\": 0, \"qz\": 1, \"qw\": 1}".toList
    = some (.error .format) := by decide +kernel

end Evo.C07
