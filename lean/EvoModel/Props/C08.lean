/-
C08 — trajectory operations have their documented effect and keep all views consistent.

Property theorems about `Evo.Traj` (`Model/Traj.lean`): the *cache machine* (the object as
`trajectory.py` implements it: three lazily filled caches, stamps, the projected flag) refines the
*abstract trajectory* (a list of poses with optional stamps) over every operation history, with
reads interleaved anywhere; every operation has its documented effect on the abstract trajectory;
every operation maps proper rigid poses to proper rigid poses, so `check()` passes.
Helper lemmas: `Lemmas/Traj.lean`.
-/
import EvoModel.Lemmas.Traj
import EvoModel.Lemmas.TrajDerived
namespace Evo.C08
open Evo Evo.Traj

/-! ### consistent views: the invariant and its preservation -/

/-- every present cache is the view of the abstract trajectory, so any two present caches and the
stamps have the same number of entries -/
theorem inv_same_count {s : St} {a : ATraj} (h : Inv s a) :
    (∀ l, s.pos? = some l → l.length = a.items.length) ∧
    (∀ l, s.quat? = some l → l.length = a.items.length) ∧
    (∀ l, s.se3? = some l → l.length = a.items.length) ∧
    (∀ l, s.stamps = some l → l.length = a.items.length) ∧
    s.numPoses = a.items.length := by
  refine ⟨?_, ?_, ?_, ?_, h.numPoses⟩
  · intro l hl; rw [h.pos l hl]; simp
  · intro l hl; rw [h.quat l hl]; simp
  · intro l hl; rw [h.se3 l hl]; simp
  · intro l hl
    have := congrArg List.length (h.stamps l hl)
    simpa [stampsOf] using this.symm

/-- `PosePath3D(poses_se3=…)` / `PoseTrajectory3D(poses_se3=…, timestamps=…)` -/
theorem inv_init_from_se3 (ps : List P) (st : Option (List Rat))
    (hl : ∀ l, st = some l → l.length = ps.length) :
    Inv (initSe3 ps st) (ATraj.init ps st) := by
  obtain ⟨hp, hs⟩ := mkItems_views ps st hl
  refine ⟨?_, ?_, ?_, Or.inl rfl, rfl, ?_, rfl⟩
  · intro l h; simp [initSe3] at h
  · intro l h; simp [initSe3] at h
  · intro l h; simp only [initSe3] at h; rw [← Option.some.inj h]; exact hp.symm
  · intro l h; exact hs l h

/-- `PosePath3D(positions_xyz=…, orientations_quat_wxyz=…)`: the abstract poses are
`se3(R(qᵢ), xyzᵢ)` -/
theorem inv_init_from_pos_quat (xyz : List (V3 Rat)) (rots : List (M3 Rat)) (st : Option (List Rat))
    (hq : rots.length = xyz.length) (hl : ∀ l, st = some l → l.length = xyz.length) :
    Inv (initPosQuat xyz rots st) (ATraj.init (List.zipWith se3Of rots xyz) st) := by
  have hlen : (List.zipWith se3Of rots xyz).length = xyz.length := by simp [hq]
  obtain ⟨hp, hs⟩ := mkItems_views (List.zipWith se3Of rots xyz) st (fun l h => by rw [hlen]; exact hl l h)
  have ht : (List.zipWith se3Of rots xyz).map (·.t) = xyz := by
    clear hp hs hlen hl
    induction rots generalizing xyz with
    | nil => cases xyz <;> simp_all
    | cons r rs ih =>
        cases xyz with
        | nil => simp at hq
        | cons x xs => simp [se3Of, ih xs (by simpa using hq)]
  have hr : (List.zipWith se3Of rots xyz).map (·.rot) = rots := by
    clear hp hs hlen hl ht
    induction rots generalizing xyz with
    | nil => simp
    | cons r rs ih =>
        cases xyz with
        | nil => simp at hq
        | cons x xs => simp [se3Of, ih xs (by simpa using hq)]
  refine ⟨?_, ?_, ?_, Or.inr ⟨rfl, rfl⟩, rfl, ?_, rfl⟩
  · intro l h; simp only [initPosQuat] at h; rw [← Option.some.inj h]
    show xyz = (poses (mkItems _ st)).map _; rw [hp, ht]
  · intro l h; simp only [initPosQuat] at h; rw [← Option.some.inj h]
    show rots = (poses (mkItems _ st)).map _; rw [hp, hr]
  · intro l h; simp [initPosQuat] at h
  · intro l h; exact hs l h

/-- **one step**: whatever caches are filled, every operation (mutating, reading, checking) takes
related states to related states and shows the same output as the abstract operation -/
theorem step_preserves_inv {s : St} {a : ATraj} (h : Inv s a) (op : Op) :
    Inv (step s op).1 (specStep a op).1 ∧ (step s op).2 = (specStep a op).2 := by
  cases op with
  | transform m T norm => exact ⟨h.transform m T norm, rfl⟩
  | scale c => exact ⟨h.scale c, rfl⟩
  | reduce ids => exact ⟨h.reduce ids, rfl⟩
  | reduceInt ids =>
      simp only [step, specStep, h.numPoses]
      cases normIds a.items.length ids with
      | none => exact ⟨h, rfl⟩
      | some l => exact ⟨h.reduce l, rfl⟩
  | downsample n ids =>
      simp only [step, specStep, h.numPoses]
      split
      · exact ⟨h, rfl⟩
      · split
        · exact ⟨h, rfl⟩
        · exact ⟨h.reduce ids, rfl⟩
  | motionFilter ids => exact ⟨h.forceSe3.reduce ids, rfl⟩
  | crop ids =>
      simp only [step, specStep]
      rcases Bool.eq_false_or_eq_true a.timed with ha | ha
      · have hs : s.stamps.isSome = true := by rw [← h.timed]; exact ha
        rw [if_pos ha, if_pos hs]; exact ⟨h.reduce ids, rfl⟩
      · have hs : ¬ s.stamps.isSome = true := by rw [← h.timed, ha]; simp
        have ha' : ¬ a.timed = true := by rw [ha]; simp
        rw [if_neg ha', if_neg hs]; exact ⟨h, rfl⟩
  | align am r t c norm => exact ⟨h.align am r t c norm, rfl⟩
  | alignOrigin ref norm =>
      simp only [step, specStep, h.getSe3]
      cases hp : poses a.items with
      | nil => exact ⟨h, rfl⟩
      | cons p0 r => exact ⟨h.forceSe3.transform .left _ norm, rfl⟩
  | project nd rots =>
      simp only [step, specStep, h.proj]
      split
      · exact ⟨h, rfl⟩
      · exact ⟨h.project nd rots, rfl⟩
  | copy => exact ⟨h, rfl⟩
  | read v =>
      cases v with
      | pos => exact ⟨h.forcePos, by simp [step, specStep, St.view, ATraj.view, h.getPos]⟩
      | quat => exact ⟨h.forceQuat, by simp [step, specStep, St.view, ATraj.view, h.getQuat]⟩
      | se3 => exact ⟨h.forceSe3, by simp [step, specStep, St.view, ATraj.view, h.getSe3]⟩
      | stamps => exact ⟨h, by simp [step, specStep, St.view, ATraj.view, h.stampsView]⟩
      | num => exact ⟨h, by simp [step, specStep, St.view, ATraj.view, h.numPoses]⟩
      | dist => exact ⟨h.forcePos, by simp [step, specStep, St.view, ATraj.view, h.getPos]⟩
  | check =>
      simp only [step, specStep, St.check, checkOut, h.numPoses, poses_length]
      split
      · exact ⟨h, rfl⟩
      · have h3 := h.forcePos.forceQuat.forceSe3
        refine ⟨h3, ?_⟩
        have e1 := h3.getSe3
        have e2 := h3.getPos
        have e3 := h3.getQuat
        have e4 : s.forcePos.forceQuat.forceSe3.stamps = a.stampsView := h.stampsView.symm
        rw [e1, e2, e3, e4]
        simp

/-- **any history**: induction over arbitrary operation lists, reads interleaved anywhere -/
theorem reachable_inv {s : St} {a : ATraj} (h : Inv s a) (ops : List Op) :
    Inv (run s ops).1 (specRun a ops).1 ∧ (run s ops).2 = (specRun a ops).2 := by
  induction ops generalizing s a with
  | nil => exact ⟨h, rfl⟩
  | cons op r ih =>
      obtain ⟨h1, e1⟩ := step_preserves_inv h op
      obtain ⟨h2, e2⟩ := ih h1
      simp only [run, specRun]
      exact ⟨h2, by rw [e1, e2]⟩

/-- **reads refine the spec**: whatever was cached or read before, a read of any view after any
history returns the view of the abstract trajectory `spec(history)` -/
theorem read_refines_spec {s : St} {a : ATraj} (h : Inv s a) (ops : List Op) (v : View) :
    (step (run s ops).1 (.read v)).2 = (specRun a ops).1.view v :=
  (step_preserves_inv (reachable_inv h ops).1 (.read v)).2

/-- positions, rotations (quaternions) and matrices read after any history describe the same poses
and have the same count; timestamps too when present -/
theorem views_describe_same_poses {s : St} {a : ATraj} (h : Inv s a) (ops : List Op) :
    let s' := (run s ops).1
    let a' := (specRun a ops).1
    (s'.view .se3).2 = .poses (poses a'.items) ∧
    (s'.view .pos).2 = .vecs ((poses a'.items).map (·.t)) ∧
    (s'.view .quat).2 = .rots ((poses a'.items).map (·.rot)) ∧
    (s'.view .num).2 = .num (poses a'.items).length ∧
    (∀ l, (s'.view .stamps).2 = .stamps (some l) → l.length = (poses a'.items).length) := by
  intro s' a'
  have hi : Inv s' a' := (reachable_inv h ops).1
  refine ⟨?_, ?_, ?_, ?_, ?_⟩
  · simp [St.view, hi.getSe3]
  · simp [St.view, hi.getPos]
  · simp [St.view, hi.getQuat]
  · simp [St.view, hi.numPoses]
  · intro l hl
    simp only [St.view, Out.stamps.injEq] at hl
    simpa using (inv_same_count hi).2.2.2.1 l hl

/-- path length, accumulated distances and speeds are functions of the step lengths between
consecutive positions: the machine's `distances` read equals them computed on the abstract poses -/
theorem derived_quantities {s : St} {a : ATraj} (h : Inv s a) (ops : List Op) :
    (step (run s ops).1 (.read .dist)).2
      = .rats (segSq ((poses (specRun a ops).1.items).map (·.t))) :=
  read_refines_spec h ops .dist

/-! ### documented effect of each operation (on the abstract trajectory) -/

theorem spec_transform_poses (a : ATraj) (m : Mode) (T : P) (norm : Option Rat) :
    poses (specStep a (.transform m T norm)).1.items = transformFull m T norm (poses a.items) ∧
    stampsOf (specStep a (.transform m T norm)).1.items = stampsOf a.items := by
  have hl : (transformFull m T norm (poses a.items)).length = a.items.length := by
    rw [transformFull_length]; simp
  exact ⟨poses_onPoses _ _ hl, stampsOf_onPoses _ _ hl⟩

/-- left multiplication by an SE(3) matrix maps every pose `P` to `T·P`; stamps untouched -/
theorem transformL_effect (a : ATraj) (T : P) :
    poses (specStep a (.transform .left T none)).1.items = (poses a.items).map (fun p => T.mul p) ∧
    stampsOf (specStep a (.transform .left T none)).1.items = stampsOf a.items :=
  spec_transform_poses a .left T none

/-- right multiplication maps every pose `P` to `P·T` -/
theorem transformR_effect (a : ATraj) (T : P) :
    poses (specStep a (.transform .right T none)).1.items = (poses a.items).map (fun p => p.mul T) ∧
    stampsOf (specStep a (.transform .right T none)).1.items = stampsOf a.items :=
  spec_transform_poses a .right T none

/-- propagation keeps the count and the first pose and replaces every relative motion
`Dᵢ = Pᵢ⁻¹·Pᵢ₊₁` by `Dᵢ·T` (rigid poses, rigid `T`) -/
theorem transformProp_effect (a : ATraj) (T : P) (hT : Proper T) (hp : ∀ p ∈ poses a.items, Proper p) :
    let new := poses (specStep a (.transform .prop T none)).1.items
    new.length = (poses a.items).length ∧
    new.head? = (poses a.items).head? ∧
    relsOf new = (relsOf (poses a.items)).map (fun d => d.mul T) := by
  intro new
  have e : new = transformFull .prop T none (poses a.items) := (spec_transform_poses a .prop T none).1
  rw [e]
  refine ⟨transformFull_length _ _ _ _, ?_, ?_⟩
  · cases hps : poses a.items with
    | nil => rfl
    | cons p0 r =>
        obtain ⟨tl, htl⟩ := propagate_head p0 ((relsOf (p0 :: r)).map (fun d => d.mul T))
        simp [transformFull, transformPoses, htl]
  · cases hps : poses a.items with
    | nil => rfl
    | cons p0 r =>
        rw [hps] at hp
        simp only [transformFull, transformPoses]
        apply relsOf_propagate (hp p0 (by simp))
        intro d hd
        obtain ⟨d0, hd0, rfl⟩ := List.mem_map.mp hd
        exact Proper.mul (relsOf_mem_proper hp d0 hd0) hT

/-- scaling multiplies the positions only -/
theorem scale_effect (a : ATraj) (c : Rat) :
    let new := poses (specStep a (.scale c)).1.items
    new.map (·.t) = (poses a.items).map (fun p => V3.smul c p.t) ∧
    new.map (·.rot) = (poses a.items).map (·.rot) ∧
    stampsOf (specStep a (.scale c)).1.items = stampsOf a.items := by
  intro new
  have hl : ((List.map (scalePose c)) (poses a.items)).length = a.items.length := by simp
  have e : new = (poses a.items).map (scalePose c) := poses_onPoses _ _ hl
  refine ⟨?_, ?_, stampsOf_onPoses _ _ hl⟩
  · rw [e]; simp [List.map_map, Function.comp_def, scalePose]
  · rw [e]; simp [List.map_map, Function.comp_def, scalePose]

/-- a similarity `T = [sR t; 0 1]` applied from the left maps positions by `s·R·p + t` and
orientations by `R` (the Sim(3) normalisation divides the rotation block by the scale `s`, which
the model receives as the parameter `norm`) -/
theorem similarity_effect (a : ATraj) (R : M3 Rat) (t : V3 Rat) (s : Rat) (hs : s ≠ 0) :
    poses (specStep a (.transform .left (Pose.sim3 R t s) (some s))).1.items
      = (poses a.items).map (fun p => ⟨R.mul p.rot, V3.add (V3.smul s (R.mulVec p.t)) t⟩) := by
  rw [(spec_transform_poses a .left _ _).1]
  simp only [transformFull, normalise, transformPoses, List.map_map]
  apply List.map_congr_left
  intro p _
  simp only [Function.comp, unscale, Pose.mul, Pose.sim3]
  rw [smul_mul_left, unscale_smul s hs]
  congr 1
  ext <;> lin_unfold <;> ring

/-- `align()` with the Umeyama triple `(R, t, c)` and scale correction maps positions by
`c·R·p + t` and orientations by `R` -/
theorem align_effect (a : ATraj) (R : M3 Rat) (t : V3 Rat) (c : Rat) :
    poses (specStep a (.align .withScale R t c none)).1.items
      = (poses a.items).map (fun p => ⟨R.mul p.rot, V3.add (V3.smul c (R.mulVec p.t)) t⟩) := by
  have hl1 : ((List.map (scalePose c)) (poses a.items)).length = a.items.length := by simp
  have e1 := poses_onPoses (List.map (scalePose c)) a.items hl1
  have hl2 : (transformFull .left (se3Of R t) none (poses (onPoses (List.map (scalePose c)) a.items))).length
      = (onPoses (List.map (scalePose c)) a.items).length := by
    rw [transformFull_length]; simp
  have e2 := poses_onPoses (transformFull .left (se3Of R t) none) _ hl2
  simp only [specStep, alignItems]
  rw [e2, e1]
  simp only [transformFull, transformPoses, List.map_map]
  apply List.map_congr_left
  intro p _
  simp only [Function.comp, scalePose, Pose.mul, se3Of]
  congr 1
  ext <;> lin_unfold <;> ring

/-- index reduction (also the effect of down-sampling, motion filtering and time cropping once
the ids are chosen): the `k`-th remaining item is item `ids[k]` of the original, pose and stamp -/
theorem reduce_effect (a : ATraj) (ids : List Nat) (hv : ∀ i ∈ ids, i < a.items.length) :
    let new := (specStep a (.reduce ids)).1.items
    new.length = ids.length ∧
    ∀ k (hk : k < ids.length), new[k]? = a.items[ids[k]]? := by
  intro new
  have e : new = reduceIds a.items ids := rfl
  have key : ∀ (ids : List Nat), (∀ i ∈ ids, i < a.items.length) →
      (reduceIds a.items ids).length = ids.length ∧
      ∀ k (hk : k < ids.length), (reduceIds a.items ids)[k]? = a.items[ids[k]]? := by
    intro ids
    induction ids with
    | nil => intro _; exact ⟨rfl, fun k hk => by simp at hk⟩
    | cons i r ih =>
        intro hv
        have hi : i < a.items.length := hv i (by simp)
        obtain ⟨l1, l2⟩ := ih (fun j hj => hv j (List.mem_cons_of_mem _ hj))
        have hc : reduceIds a.items (i :: r) = a.items[i] :: reduceIds a.items r := by
          simp [reduceIds, List.getElem?_eq_getElem hi]
        rw [hc]
        refine ⟨by simp [l1], ?_⟩
        intro k hk
        cases k with
        | zero => simp [List.getElem?_eq_getElem hi]
        | succ k' => simpa using l2 k' (by simpa using hk)
  rw [e]; exact key ids hv

theorem normIdx_lt {n : Nat} {i : Int} {j : Nat} (h : normIdx n i = some j) : j < n := by
  unfold normIdx at h
  split at h
  · split at h
    · simp only [Option.some.injEq] at h; omega
    · simp at h
  · split at h
    · simp only [Option.some.injEq] at h; omega
    · simp at h

theorem normIds_spec {n : Nat} {ids : List Int} {l : List Nat} (h : normIds n ids = some l) :
    l.length = ids.length ∧ ∀ j ∈ l, j < n := by
  induction ids generalizing l with
  | nil => simp only [normIds, Option.some.injEq] at h; subst h; simp
  | cons i r ih =>
      simp only [normIds] at h
      cases hi : normIdx n i with
      | none => simp [hi] at h
      | some j =>
          cases hr : normIds n r with
          | none => simp [hi, hr] at h
          | some l' =>
              simp only [hi, hr, Option.some.injEq] at h
              subst h
              obtain ⟨h1, h2⟩ := ih hr
              refine ⟨by simp [h1], ?_⟩
              intro k hk
              simp only [List.mem_cons] at hk
              rcases hk with rfl | hk
              · exact normIdx_lt hi
              · exact h2 k hk

/-- signed indices: `reduce_to_ids` with Python indices is index reduction with the normalised indices
(`−1` ↦ `n−1`, …, `−n` ↦ `0`), for poses *and* stamps alike; an index outside `[−n, n)` refuses and changes nothing -/
theorem reduceInt_effect (a : ATraj) (ids : List Int) :
    (∀ l, normIds a.items.length ids = some l →
      specStep a (.reduceInt ids) = specStep a (.reduce l) ∧ l.length = ids.length ∧ ∀ j ∈ l, j < a.items.length) ∧
    (normIds a.items.length ids = none → specStep a (.reduceInt ids) = (a, .err)) :=
  ⟨fun l hl => ⟨by simp [specStep, hl], normIds_spec hl⟩, fun hn => by simp [specStep, hn]⟩

/-- projection happens at most once: a second call is refused and changes nothing; the first one
zeroes the coordinate normal to the plane and installs the planar rotations -/
theorem project_effect (a : ATraj) (nd : Nat) (rots : List (M3 Rat)) :
    (a.projected = true → specStep a (.project nd rots) = (a, .err)) ∧
    (a.projected = false →
      (specStep a (.project nd rots)).1.projected = true ∧
      poses (specStep a (.project nd rots)).1.items = projPoses nd rots (poses a.items)) := by
  constructor
  · intro h; simp [specStep, h]
  · intro h
    have hl : (projPoses nd rots (poses a.items)).length = a.items.length := by
      rw [projPoses_length]; simp
    simp only [specStep, h]
    exact ⟨rfl, poses_onPoses _ _ hl⟩

/-- copying, reading and checking leave the abstract trajectory as it is -/
theorem copy_read_check_effect (a : ATraj) (v : View) :
    (specStep a .copy).1 = a ∧ (specStep a (.read v)).1 = a ∧ (specStep a .check).1 = a :=
  ⟨rfl, rfl, rfl⟩

/-! ### every pose remains a valid rigid-body pose -/

/-- admissible operation parameters: SE(3) matrices are proper rigid; a Sim(3) matrix is
`sim3(R, t, s)` with a proper rotation and the non-zero scale handed to the normalisation;
alignment rotations and projected rotations are proper -/
def GoodOp : Op → Prop
  | .transform _ T none => Proper T
  | .transform _ T (some s) => s ≠ 0 ∧ ∃ R t, IsRot R ∧ T = Pose.sim3 R t s
  | .align _ r _ _ none => IsRot r
  | .align _ _ _ _ (some _) => False
  | .alignOrigin ref none => Proper ref
  | .alignOrigin _ (some _) => False
  | .project _ rots => ∀ q ∈ rots, IsRot q
  | _ => True

theorem transformFull_proper {m : Mode} {T : P} {norm : Option Rat} {ps : List P}
    (hg : GoodOp (.transform m T norm)) (hp : ∀ p ∈ ps, Proper p) :
    ∀ p ∈ transformFull m T norm ps, Proper p := by
  cases norm with
  | none =>
      have hT : Proper T := hg
      cases m with
      | left =>
          intro p h
          simp only [transformFull, transformPoses, List.mem_map] at h
          obtain ⟨q, hq, rfl⟩ := h
          exact Proper.mul hT (hp q hq)
      | right =>
          intro p h
          simp only [transformFull, transformPoses, List.mem_map] at h
          obtain ⟨q, hq, rfl⟩ := h
          exact Proper.mul (hp q hq) hT
      | prop =>
          cases ps with
          | nil => intro p h; simp [transformFull, transformPoses] at h
          | cons p0 r =>
              simp only [transformFull, transformPoses]
              apply propagate_proper (hp p0 (by simp))
              intro d hd
              obtain ⟨d0, hd0, rfl⟩ := List.mem_map.mp hd
              exact Proper.mul (relsOf_mem_proper hp d0 hd0) hT
  | some s =>
      obtain ⟨hs, R, t, hR, rfl⟩ := hg
      cases m with
      | left =>
          intro p h
          simp only [transformFull, normalise, transformPoses, List.map_map, List.mem_map] at h
          obtain ⟨q, hq, rfl⟩ := h
          simp only [Function.comp, Proper, unscale, Pose.mul, Pose.sim3]
          rw [smul_mul_left, unscale_smul s hs]
          exact IsRot.mul hR (hp q hq)
      | right =>
          intro p h
          simp only [transformFull, normalise, transformPoses, List.map_map, List.mem_map] at h
          obtain ⟨q, hq, rfl⟩ := h
          simp only [Function.comp, Proper, unscale, Pose.mul, Pose.sim3]
          rw [smul_mul_right, unscale_smul s hs]
          exact IsRot.mul (hp q hq) hR
      | prop =>
          cases ps with
          | nil => intro p h; simp [transformFull, transformPoses, normalise, unscalePow] at h
          | cons p0 r =>
              simp only [transformFull, transformPoses, normalise]
              apply unscalePow_propagate_proper s hs 0 p0 p0.rot (hp p0 (by simp))
              · rw [pow_zero, one_smul']
              · intro d hd
                obtain ⟨d0, hd0, rfl⟩ := List.mem_map.mp hd
                refine ⟨d0.rot.mul R, IsRot.mul (relsOf_mem_proper hp d0 hd0) hR, ?_⟩
                simp only [Pose.mul, Pose.sim3]
                rw [smul_mul_right]

theorem onPoses_proper {f : List P → List P} {l : List Item} (hf : (f (poses l)).length = l.length)
    (h : ∀ p ∈ f (poses l), Proper p) : ∀ p ∈ poses (onPoses f l), Proper p := by
  rw [poses_onPoses f l hf]; exact h

/-- **rigid poses stay rigid**: every operation with admissible parameters maps a trajectory of
proper rigid poses to one of proper rigid poses — including left/right/propagating
multiplication by a Sim(3) matrix (fix 91a1eaa), given its scale -/
theorem rigid_preserved (a : ATraj) (op : Op) (hg : GoodOp op) (hp : ∀ p ∈ poses a.items, Proper p) :
    ∀ p ∈ poses (specStep a op).1.items, Proper p := by
  have hred : ∀ ids, ∀ p ∈ poses (reduceIds a.items ids), Proper p := by
    intro ids p h
    simp only [poses] at h
    rw [← reduceIds_map] at h
    exact hp p (mem_reduceIds h)
  have hsc : ∀ c, ∀ p ∈ poses (onPoses (List.map (scalePose c)) a.items), Proper p := by
    intro c
    apply onPoses_proper (by simp)
    intro p h
    obtain ⟨q, hq, rfl⟩ := List.mem_map.mp h
    exact hp q hq
  cases op with
  | transform m T norm =>
      apply onPoses_proper (by rw [transformFull_length]; simp)
      exact transformFull_proper hg hp
  | scale c => exact hsc c
  | reduce ids => exact hred ids
  | reduceInt ids =>
      simp only [specStep]
      cases normIds a.items.length ids with
      | none => exact hp
      | some l => exact hred l
  | downsample n ids =>
      simp only [specStep]
      split
      · exact hp
      · split
        · exact hp
        · exact hred ids
  | motionFilter ids => exact hred ids
  | crop ids =>
      simp only [specStep]
      split
      · exact hred ids
      · exact hp
  | align am r t c norm =>
      cases norm with
      | some _ => exact absurd hg id
      | none =>
          have hr : IsRot r := hg
          have hT : GoodOp (.transform .left (se3Of r t) none) := hr
          cases am with
          | onlyScale => exact hsc c
          | rigid =>
              apply onPoses_proper (by rw [transformFull_length]; simp)
              exact transformFull_proper hT hp
          | withScale =>
              simp only [specStep, alignItems]
              apply onPoses_proper (by rw [transformFull_length]; simp)
              exact transformFull_proper hT (hsc c)
  | alignOrigin ref norm =>
      cases norm with
      | some _ => exact absurd hg id
      | none =>
          have hr : Proper ref := hg
          simp only [specStep]
          cases hps : poses a.items with
          | nil => simp [hps]
          | cons p0 r =>
              simp only
              apply onPoses_proper (by rw [transformFull_length]; simp)
              have hT : GoodOp (.transform .left (originTransform ref p0) none) :=
                Proper.mul hr (Proper.inv (hp p0 (by simp [hps])))
              exact transformFull_proper hT hp
  | project nd rots =>
      simp only [specStep]
      split
      · exact hp
      · apply onPoses_proper (by rw [projPoses_length]; simp)
        exact projPoses_proper hg hp
  | copy => exact hp
  | read v => exact hp
  | check => exact hp

/-- rigidity over whole histories -/
theorem rigid_preserved_run (a : ATraj) (ops : List Op) (hg : ∀ op ∈ ops, GoodOp op)
    (hp : ∀ p ∈ poses a.items, Proper p) : ∀ p ∈ poses (specRun a ops).1.items, Proper p := by
  induction ops generalizing a with
  | nil => exact hp
  | cons op r ih =>
      simp only [specRun]
      exact ih _ (fun o ho => hg o (List.mem_cons_of_mem _ ho)) (rigid_preserved a op (hg op (by simp)) hp)

/-- **evo's own validity check passes**: after any history of admissible operations on an object
built from proper rigid poses, `check()` (whatever is cached at that moment) reports equal
lengths and valid SE(3) matrices with residual zero; its time-stamp verdict is the one of the
abstract stamps -/
theorem check_passes {s : St} {a : ATraj} (h : Inv s a) (ops : List Op) (hg : ∀ op ∈ ops, GoodOp op)
    (hp : ∀ p ∈ poses a.items, Proper p) :
    ∃ b, (step (run s ops).1 .check).2 = .chk true true 0 b := by
  have hi := (reachable_inv h ops).1
  have hr := rigid_preserved_run a ops hg hp
  rw [(step_preserves_inv hi .check).2]
  simp only [specStep, checkOut]
  split
  · exact ⟨true, rfl⟩
  · have hall : (poses (specRun a ops).1.items).all (fun p => properRot p.rot) = true := by
      rw [List.all_eq_true]
      intro p hpm
      exact properRot_true (hr p hpm)
    rw [maxResid_zero hr, hall]
    exact ⟨_, rfl⟩

/-! ### time stamps stay strictly ascending -/

/-- the index lists of the selecting operations are strictly increasing (what `linspace`,
`filter_by_motion`, `np.where` produce) -/
def IdsAscending : Op → Prop
  | .reduce ids => ids.Pairwise (· < ·)
  | .reduceInt ids => ∀ n l, normIds n ids = some l → l.Pairwise (· < ·)
  | .downsample _ ids => ids.Pairwise (· < ·)
  | .motionFilter ids => ids.Pairwise (· < ·)
  | .crop ids => ids.Pairwise (· < ·)
  | _ => True

def StampsOk (st : Option (List Rat)) : Prop := ∀ l, st = some l → l.Pairwise (· < ·)

theorem reduce_stampsOk {s : St} (ids : List Nat) (hi : ids.Pairwise (· < ·)) (h : StampsOk s.stamps) :
    StampsOk (s.reduce ids).stamps := by
  intro l hl
  simp only [St.reduce, Option.map_eq_some_iff] at hl
  obtain ⟨l0, h0, rfl⟩ := hl
  exact reduce_pairwise l0 ids (h l0 h0) hi

/-- no operation touches the stamps except index reduction, which keeps them strictly ascending -/
theorem stamps_ascending_preserved (s : St) (op : Op) (hi : IdsAscending op) (h : StampsOk s.stamps) :
    StampsOk (step s op).1.stamps := by
  cases op with
  | transform m T norm => exact h
  | scale c => exact h
  | reduce ids => exact reduce_stampsOk ids hi h
  | reduceInt ids =>
      simp only [step]
      cases hn : normIds s.numPoses ids with
      | none => exact h
      | some l => exact reduce_stampsOk l (hi _ _ hn) h
  | downsample n ids =>
      simp only [step]
      split
      · exact h
      · split
        · exact h
        · exact reduce_stampsOk ids hi h
  | motionFilter ids => exact reduce_stampsOk (s := s.forceSe3) ids hi h
  | crop ids =>
      simp only [step]
      split
      · exact reduce_stampsOk ids hi h
      · exact h
  | align am r t c norm => cases am <;> exact h
  | alignOrigin ref norm =>
      simp only [step]
      split
      · exact h
      · exact h
  | project nd rots =>
      simp only [step]
      split
      · exact h
      · exact h
  | copy => exact h
  | read v => cases v <;> exact h
  | check =>
      simp only [step, St.check]
      split
      · exact h
      · exact h

theorem stamps_ascending_run (s : St) (ops : List Op) (hi : ∀ op ∈ ops, IdsAscending op) (h : StampsOk s.stamps) :
    StampsOk (run s ops).1.stamps := by
  induction ops generalizing s with
  | nil => exact h
  | cons op r ih =>
      simp only [run]
      exact ih _ (fun o ho => hi o (List.mem_cons_of_mem _ ho)) (stamps_ascending_preserved s op (hi op (by simp)) h)

/-- **the complete verdict of `check()`**: after any history of admissible operations with
increasing index lists on an object built from proper rigid poses and strictly ascending stamps
(or none), `check()` reports: same lengths, valid SE(3), residual 0, stamps ok -/
theorem check_valid_after_history {s : St} {a : ATraj} (h : Inv s a) (ops : List Op)
    (hg : ∀ op ∈ ops, GoodOp op) (hi : ∀ op ∈ ops, IdsAscending op)
    (hp : ∀ p ∈ poses a.items, Proper p) (hs : StampsOk s.stamps) :
    (step (run s ops).1 .check).2 = .chk true true 0 true := by
  obtain ⟨b, hb⟩ := check_passes h ops hg hp
  rw [hb]
  have hinv := (reachable_inv h ops).1
  have hok := stamps_ascending_run s ops hi hs
  -- the stamp verdict, read off the machine
  have hb' := hb
  simp only [step, St.check] at hb'
  split at hb'
  · simp only [Out.chk.injEq] at hb'; rw [← hb'.2.2.2]
  · simp only [Out.chk.injEq] at hb'
    rw [← hb'.2.2.2]
    have h3 := hinv.forcePos.forceQuat.forceSe3
    cases hst : (run s ops).1.forcePos.forceQuat.forceSe3.stamps with
    | none => rfl
    | some l =>
        have hst' : (run s ops).1.stamps = some l := hst
        have hlen := (inv_same_count h3).2.2.2.1 l hst
        have hpos : (run s ops).1.forcePos.forceQuat.forceSe3.getPos.length = (specRun a ops).1.items.length := by
          rw [h3.getPos]; simp
        simp only [hlen, hpos, decide_true, Bool.true_and]
        rw [(strictAsc_iff l).mpr (hok l hst')]

/-- the pre-repair behaviour (finding F7): without the normalisation a Sim(3) argument of scale 2
leaves a pose matrix that is not rigid -/
theorem sim3_transform_not_rigid_without_normalisation :
    ∃ (T p : P), Proper p ∧ ¬ Proper (T.mul p) :=
  ⟨Pose.sim3 M3.one V3.zero 2, Pose.one, ⟨IsOrtho.one, by decide +kernel⟩, by
    intro h
    have := h.2
    revert this
    decide +kernel⟩

/-! ### non-vacuity: concrete instances -/

def rz : M3 Rat := ⟨0, -1, 0, 1, 0, 0, 0, 0, 1⟩
def p1 : P := ⟨rz, ⟨1, 2, 3⟩⟩
def p2 : P := ⟨M3.one, ⟨4, 5, 6⟩⟩
def p3 : P := ⟨rz, ⟨7, 7, 0⟩⟩
def T0 : P := ⟨rz, ⟨1, 0, -1⟩⟩

example : IsRot rz := ⟨by unfold IsOrtho; decide +kernel, by decide +kernel⟩
example : Inv (initSe3 [p1, p2, p3] (some [0, 1, 2])) (ATraj.init [p1, p2, p3] (some [0, 1, 2])) :=
  inv_init_from_se3 _ _ (by intro l h; cases h; rfl)
example : Inv (initPosQuat [⟨1, 2, 3⟩, ⟨4, 5, 6⟩] [rz, M3.one] none)
    (ATraj.init (List.zipWith se3Of [rz, M3.one] [⟨1, 2, 3⟩, ⟨4, 5, 6⟩]) none) :=
  inv_init_from_pos_quat _ _ _ rfl (by intro l h; cases h)

/-- a history in which a cache is filled, the object is mutated and another view is read:
positions cached, scaled by 2, propagated, reduced, then the matrices are read -/
example :
    (run (initPosQuat [⟨1, 2, 3⟩, ⟨4, 5, 6⟩, ⟨7, 7, 0⟩] [rz, M3.one, rz] (some [0, 1, 2]))
      [.read .pos, .scale 2, .transform .prop T0 none, .reduce [0, 2], .read .se3, .read .stamps]).2
    = [.vecs [⟨1, 2, 3⟩, ⟨4, 5, 6⟩, ⟨7, 7, 0⟩], .unit, .unit, .unit,
       .poses [⟨rz, ⟨2, 4, 6⟩⟩, ⟨⟨0, 1, 0, -1, 0, 0, 0, 0, 1⟩, ⟨4, 16, -2⟩⟩], .stamps (some [0, 2])] := by
  decide +kernel

example : GoodOp (.transform .prop T0 none) := ⟨by unfold IsOrtho; decide +kernel, by decide +kernel⟩
example : GoodOp (.transform .left (Pose.sim3 rz ⟨1, 1, 1⟩ 2) (some 2)) :=
  ⟨by decide, rz, ⟨1, 1, 1⟩, ⟨by unfold IsOrtho; decide +kernel, by decide +kernel⟩, rfl⟩
/-- the Sim(3) normalisation on a concrete instance: scale 2 from the left, poses stay proper -/
example : (specStep (ATraj.init [p1, p2] none) (.transform .left (Pose.sim3 rz ⟨1, 1, 1⟩ 2) (some 2))).1.items
    = [(⟨⟨-1, 0, 0, 0, -1, 0, 0, 0, 1⟩, ⟨-3, 3, 7⟩⟩, none), (⟨rz, ⟨-9, 9, 13⟩⟩, none)] := by decide +kernel
example : (step (initSe3 [p1, p2] none) .check).2 = .chk true true 0 true := by decide +kernel
example : StampsOk (initSe3 [p1, p2, p3] (some [0, 1, 2])).stamps := by
  intro l h
  simp only [initSe3, Option.some.injEq] at h
  subst h
  decide +kernel
example : IdsAscending (.reduce [0, 2]) := by simp [IdsAscending]
example : (step (run (initSe3 [p1, p2, p3] (some [0, 1, 2])) [.read .pos, .scale 2, .reduce [0, 2]]).1 .check).2
    = .chk true true 0 true := by decide +kernel
example : normIds 3 [0, -1, -3, 2] = some [0, 2, 0, 2] := by decide
example : normIds 3 [0, -4] = none := by decide
example : (run (initSe3 [p1, p2, p3] (some [0, 1, 2])) [.reduceInt [0, -1], .read .stamps, .read .pos]).2
    = [.unit, .stamps (some [0, 2]), .vecs [⟨1, 2, 3⟩, ⟨7, 7, 0⟩]] := by decide +kernel
/-- second projection refused -/
example : (run (initSe3 [p1, p2] none) [.project 2 [rz, M3.one], .project 2 [rz, M3.one], .read .pos]).2
    = [.unit, .err, .vecs [⟨1, 2, 0⟩, ⟨4, 5, 0⟩]] := by decide +kernel

/-! ### derived quantities under the operations

`path_length`, `distances` and `speeds` are `√` / cumulative sums / quotients of the squared step
lengths `segSq` of the positions (`derived_quantities` ties the machine's read to them), `duration`
is the difference of the last and the first stamp. Helper lemmas: `Lemmas/TrajDerived.lean`. -/

/-- a left multiplication by a rigid transformation (orthonormal rotation block) changes no step
length: path length, accumulated distances and speeds are unchanged -/
theorem segSq_left_rigid (T : P) (hT : IsRigid T) (ps : List P) :
    segSq ((ps.map (T.mul ·)).map (·.t)) = segSq (ps.map (·.t)) := by
  rw [positions_mul_left]
  exact segSq_map_of_isometry _ (rigid_dist hT T.t) _

example : segSq (([p1, p2, p3].map (T0.mul ·)).map (·.t)) = [27, 49] ∧ segSq ([p1, p2, p3].map (·.t)) = [27, 49] := by
  decide +kernel
example : IsRigid T0 := by unfold IsRigid IsOrtho; decide +kernel

/-- the same on the abstract trajectory: `transform(T)` with a rigid `T` keeps every step length -/
theorem transformL_keeps_step_lengths (a : ATraj) (T : P) (hT : IsRigid T) :
    segSq ((poses (specStep a (.transform .left T none)).1.items).map (·.t))
      = segSq ((poses a.items).map (·.t)) := by
  rw [(transformL_effect a T).1]
  exact segSq_left_rigid T hT _

example : segSq ((poses (specStep (ATraj.init [p1, p2, p3] (some [0, 1, 2])) (.transform .left T0 none)).1.items).map (·.t))
    = [27, 49] := by decide +kernel

/-- scaling the positions by `c` multiplies every squared step length by `c²` (path length and
distances by `|c|`) -/
theorem segSq_scale (c : Rat) (ps : List P) :
    segSq ((ps.map (scalePose c)).map (·.t)) = (segSq (ps.map (·.t))).map (c * c * ·) := by
  rw [(scale_views c ps).1]
  exact segSq_map_of_dist _ _ (scale_dist c) _

example : segSq (([p1, p2, p3].map (scalePose 3)).map (·.t)) = [243, 441] := by decide +kernel

/-- `scale(c)` on the abstract trajectory -/
theorem scale_scales_step_lengths (a : ATraj) (c : Rat) :
    segSq ((poses (specStep a (.scale c)).1.items).map (·.t))
      = (segSq ((poses a.items).map (·.t))).map (c * c * ·) := by
  have hl : ((List.map (scalePose c)) (poses a.items)).length = a.items.length := by simp
  have e : poses (specStep a (.scale c)).1.items = (poses a.items).map (scalePose c) := poses_onPoses _ _ hl
  rw [e]
  exact segSq_scale c _

example : segSq ((poses (specStep (ATraj.init [p1, p2, p3] none) (.scale (-1 / 2))).1.items).map (·.t))
    = [27 / 4, 49 / 4] := by decide +kernel

/-- a similarity `T = [sR t; 0 1]` (orthonormal `R`) applied from the left, with the Sim(3)
normalisation, multiplies every squared step length by `s²` -/
theorem similarity_scales_step_lengths (a : ATraj) (R : M3 Rat) (hR : IsOrtho R) (t : V3 Rat) (s : Rat) :
    segSq ((poses (specStep a (.transform .left (Pose.sim3 R t s) (some s))).1.items).map (·.t))
      = (segSq ((poses a.items).map (·.t))).map (s * s * ·) := by
  rw [(spec_transform_poses a .left _ _).1, positions_sim3_left]
  exact segSq_map_of_dist _ _ (similarity_dist hR s t) _

example : segSq ((poses (specStep (ATraj.init [p1, p2, p3] none)
      (.transform .left (Pose.sim3 rz ⟨1, 1, 1⟩ 2) (some 2))).1.items).map (·.t)) = [108, 196] := by
  decide +kernel

/-- a contiguous window of positions (`k` positions from index `i`) has the corresponding window of
steps (`k − 1` steps from index `i`) -/
theorem segSq_drop_take (l : List (V3 Rat)) (i k : Nat) :
    segSq ((l.drop i).take k) = ((segSq l).drop i).take (k - 1) := by
  rw [segSq_take, segSq_drop]

example : segSq ((([⟨0, 0, 0⟩, ⟨1, 0, 0⟩, ⟨1, 2, 0⟩, ⟨1, 2, 3⟩, ⟨5, 2, 3⟩] : List (V3 Rat)).drop 1).take 3) = [4, 9] ∧
    segSq ([⟨0, 0, 0⟩, ⟨1, 0, 0⟩, ⟨1, 2, 0⟩, ⟨1, 2, 3⟩, ⟨5, 2, 3⟩] : List (V3 Rat)) = [1, 4, 9, 16] := by
  decide +kernel

/-- reducing to the contiguous index range `i, i+1, …, i+k−1` keeps exactly the steps between the
kept poses: the step lengths afterwards are the window `drop i |>.take (k − 1)` of the step lengths
before (so the path length of the kept part is the difference of the accumulated distances) -/
theorem reduce_consecutive_keeps_steps (a : ATraj) (i k : Nat) :
    segSq ((poses (specStep a (.reduce (List.range' i k))).1.items).map (·.t))
      = ((segSq ((poses a.items).map (·.t))).drop i).take (k - 1) := by
  have e : poses (specStep a (.reduce (List.range' i k))).1.items = ((poses a.items).drop i).take k := by
    show poses (reduceIds a.items (List.range' i k)) = _
    rw [reduceIds_range']; simp [poses, List.map_take, List.map_drop]
  rw [e, List.map_take, List.map_drop]
  exact segSq_drop_take _ i k

example : segSq ((poses (specStep (ATraj.init [p1, p2, p3, p1] none) (.reduce (List.range' 1 3))).1.items).map (·.t))
    = [49, 70] ∧ segSq ((poses (ATraj.init [p1, p2, p3, p1] none).items).map (·.t)) = [27, 49, 70] := by
  decide +kernel

/-- **counterexample**: right multiplication by a rigid transformation with a non-zero translation is
not an isometry of the positions when the orientations differ (the translation is applied in each
pose's own frame): identity at the origin and a quarter turn about `z` at `(1, 0, 0)`, both moved by
the translation `(2, 0, 0)` in their body frame, are `√5` apart instead of `1` -/
theorem transformR_changes_step_lengths_counterexample :
    ∃ (ps : List P) (T : P), (∀ p ∈ ps, Proper p) ∧ Proper T ∧
      segSq ((ps.map (·.mul T)).map (·.t)) ≠ segSq (ps.map (·.t)) := by
  refine ⟨[⟨M3.one, ⟨0, 0, 0⟩⟩, ⟨rz, ⟨1, 0, 0⟩⟩], ⟨M3.one, ⟨2, 0, 0⟩⟩, ?_, ?_, by decide +kernel⟩
  · intro p hp
    simp only [List.mem_cons, List.not_mem_nil, or_false] at hp
    rcases hp with rfl | rfl
    · exact ⟨IsOrtho.one, by decide +kernel⟩
    · exact ⟨by unfold IsOrtho; decide +kernel, by decide +kernel⟩
  · exact ⟨IsOrtho.one, by decide +kernel⟩

example : segSq ((([⟨M3.one, ⟨0, 0, 0⟩⟩, ⟨rz, ⟨1, 0, 0⟩⟩] : List P).map (fun p => p.mul ⟨M3.one, ⟨2, 0, 0⟩⟩)).map (·.t)) = [5] ∧
    segSq (([⟨M3.one, ⟨0, 0, 0⟩⟩, ⟨rz, ⟨1, 0, 0⟩⟩] : List P).map (·.t)) = [1] := by decide +kernel
/-- with the translation `(1, 0, 0)` the same two poses happen to stay at distance `1` -/
example : segSq ((([⟨M3.one, ⟨0, 0, 0⟩⟩, ⟨rz, ⟨1, 0, 0⟩⟩] : List P).map (fun p => p.mul ⟨M3.one, ⟨1, 0, 0⟩⟩)).map (·.t)) = [1] := by
  decide +kernel

/-- the operations that rewrite the poses in place (transform, scale, align, align_origin, project)
leave the stamp list — hence the duration and the denominators of the speeds — unchanged -/
theorem stamps_unchanged_by_geometric_ops (a : ATraj) (op : Op) (h : op.isGeometric = true) :
    stampsOf (specStep a op).1.items = stampsOf a.items :=
  stampsOf_specStep_of_not_selection a op (Op.not_selection_of_geometric h)

example : (Op.transform .prop T0 none).isGeometric = true ∧ (Op.project 2 [rz]).isGeometric = true ∧
    (Op.reduce [0]).isGeometric = false := by decide
example : stampsOf (specStep (ATraj.init [p1, p2, p3] (some [0, 1, 2])) (.align .withScale rz ⟨1, 1, 1⟩ 2 none)).1.items
    = [some 0, some 1, some 2] := by decide +kernel

/-- more generally: every operation except the selecting ones (`reduce_to_ids`, `downsample`,
`motion_filter`, `reduce_to_time_range`) leaves the stamp list unchanged -/
theorem stamps_unchanged_unless_selection (a : ATraj) (op : Op) (h : op.isSelection = false) :
    stampsOf (specStep a op).1.items = stampsOf a.items :=
  stampsOf_specStep_of_not_selection a op h

example : Op.copy.isSelection = false ∧ (Op.read .dist).isSelection = false ∧ (Op.crop [0]).isSelection = true := by
  decide
/-- a selection does change the stamps -/
example : stampsOf (specStep (ATraj.init [p1, p2, p3] (some [0, 1, 2])) (.reduce [0, 2])).1.items = [some 0, some 2] := by
  decide +kernel

end Evo.C08
