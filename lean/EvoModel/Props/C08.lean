/-
C08 — trajectory operations have their documented effect and keep all views consistent.
(placeholder while the correspondence is brought up; theorems follow)
-/
import EvoModel.Model.Traj
namespace Evo.C08
open Evo Evo.Traj
end Evo.C08
