import EvoModel.Lemmas.SO3
import EvoModel.Model.Lie
namespace Evo.C09
open Evo

theorem hat_vee (v : V3 ℚ) : M3.vee (M3.hat v) = v := by
  ext <;> simp [M3.vee, M3.hat]

end Evo.C09
