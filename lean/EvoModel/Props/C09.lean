/-
C09 — Lie-group helpers satisfy the group laws (evo/core/lie_algebra.py).
Property theorems about `Model/Lin.lean` + `Model/Lie.lean`.  `K` is any ordered field (ℚ for the
driver, ℝ for the mathematics); the tolerance tests are stated over ℚ (they are rational mirrors).

Angle: evo's rotation angle is `atan2(√s², c)` of the *core* `(c, s²) = M3.angleCore R`
(`c = (tr R − 1)/2 = cos θ`, `s² = ‖vee((R − Rᵀ)/2)‖² = sin² θ`); the metric clauses are proved on
the core and, over ℝ, on `angleR = atan2(√s², c)` itself, including the triangle inequality
(`angle_triangle`, through unit quaternions).
exp/log: scipy's `so3_exp`/`so3_log` are tied by the Rodrigues certificate; the `_partial`
theorems are the polynomial content of exp∘log = id and log∘exp = id (see each docstring).
Over ℝ, `exp_log_real`, `log_exp_real`, `log_exp_real_at_pi` close the gap at rotation angle exactly
π (`logRFull`, `piAxis` of `Lemmas/LieAtPi.lean`): exp and log are mutually inverse over the whole
group.
-/
import EvoModel.Lemmas.Lie
import EvoModel.Lemmas.LieAtPi
import EvoModel.Lemmas.QuatAngle
namespace Evo.C09
open Evo Evo.Lie

set_option linter.unusedSectionVars false

section field
variable {K : Type} [Field K]

/-! ### hat / vee -/

/-- `vee(hat(v)) = v` -/
theorem vee_hat (v : V3 K) : M3.vee (M3.hat v) = v := by
  ext <;> simp [M3.vee, M3.hat]

/-- `hat(vee(S)) = S` for every skew-symmetric `S` -/
theorem hat_vee (s : M3 K) (hs : s.transpose = M3.smul (-1) s) (h2 : (1 + 1 : K) ≠ 0) :
    M3.hat (M3.vee s) = s := by
  have e := fun (f : M3 K → K) => congrArg f hs
  have d : ∀ x : K, x = -1 * x → x = 0 := by
    intro x hx
    have : (1 + 1) * x = 0 := by linear_combination hx
    rcases mul_eq_zero.mp this with h | h
    · exact absurd h h2
    · exact h
  have h00 := d _ (by simpa [M3.transpose, M3.smul] using e M3.a00)
  have h11 := d _ (by simpa [M3.transpose, M3.smul] using e M3.a11)
  have h22 := d _ (by simpa [M3.transpose, M3.smul] using e M3.a22)
  have h10 : s.a10 = -s.a01 := by simpa [M3.transpose, M3.smul] using e M3.a01
  have h20 : s.a20 = -s.a02 := by simpa [M3.transpose, M3.smul] using e M3.a02
  have h21 : s.a21 = -s.a12 := by simpa [M3.transpose, M3.smul] using e M3.a12
  ext <;> simp [M3.vee, M3.hat, *]

/-- `hat v` is the matrix of the cross product: `hat(v)·u = v × u` -/
theorem hat_is_cross (v u : V3 K) : (M3.hat v).mulVec u = V3.cross v u := by
  ext <;> simp only [M3.hat, M3.mulVec, V3.cross] <;> ring

/-! ### SE(3): inverse and relative pose -/

/-- `se3_inverse(P)·P = I` -/
theorem se3_inv_mul (p : Pose K) (h : IsRigid p) : p.inv.mul p = Pose.one := Pose.inv_mul_self h

/-- `P·se3_inverse(P) = I` -/
theorem se3_mul_inv (p : Pose K) (h : IsRigid p) : p.mul p.inv = Pose.one := Pose.mul_inv_self h

/-- `relative_se3(A, B) = A⁻¹·B`: it is the unique `X` with `A·X = B` -/
theorem rel_eq_inv_mul (a b : Pose K) (h : IsRigid a) :
    a.rel b = a.inv.mul b ∧ a.mul (a.rel b) = b ∧ ∀ x : Pose K, a.mul x = b → x = a.rel b := by
  refine ⟨rfl, ?_, ?_⟩
  · unfold Pose.rel; rw [← Pose.mul_assoc', Pose.mul_inv_self h, Pose.one_mul']
  · intro x hx
    unfold Pose.rel; rw [← hx, ← Pose.mul_assoc', Pose.inv_mul_self h, Pose.one_mul']

/-- `relative_se3(A, A) = I` -/
theorem rel_self (a : Pose K) (h : IsRigid a) : a.rel a = Pose.one := Pose.rel_self h

/-- `relative_so3(A, B) = A⁻¹·B` and `relative_so3(A, A) = I` for orthonormal `A` -/
theorem rel_so3_laws (a b : M3 K) (h : IsOrtho a) : a.mul (relSo3 a b) = b ∧ relSo3 a a = M3.one := by
  constructor
  · unfold relSo3; rw [← M3.mul_assoc', h.mul_transpose, M3.one_mul']
  · exact h

/-- the group is closed under the helpers: inverse and relative pose of rigid poses are rigid -/
theorem se3_closed (a b : Pose K) (ha : IsRigid a) (hb : IsRigid b) :
    IsRigid a.inv ∧ IsRigid (a.rel b) ∧ IsRigid (a.mul b) := ⟨ha.inv, ha.rel hb, ha.mul hb⟩

/-! ### Sim(3) -/

/-- `sim3_inverse(S)·S = I` and `S·sim3_inverse(S) = I` for `S = sim3(R, t, s)`, `R` orthonormal,
`s ≠ 0`, when the scale used by the inverse is `s` (evo recovers it as `det^(1/3)`, see
`sim3_scale_recovered_partial`) -/
theorem sim3_inv_mul (r : M3 K) (t : V3 K) (s : K) (h : IsOrtho r) (hs : s ≠ 0) :
    ((Pose.sim3 r t s).sim3Inv s).mul (Pose.sim3 r t s) = Pose.one ∧
    (Pose.sim3 r t s).mul ((Pose.sim3 r t s).sim3Inv s) = Pose.one := by
  constructor
  · rw [sim3Inv_mul_gen r t s hs, h]; rfl
  · rw [mul_sim3Inv_gen r t s hs, h.mul_transpose, M3.one_mulVec]
    ext <;> simp [Pose.one, V3.sub, V3.zero]

/-- the inverse of `sim3(R, t, s)` is again a similarity, `sim3(Rᵀ, ·, 1/s)`: scale `1/s` -/
theorem sim3_inv_is_sim3 (r : M3 K) (t : V3 K) (s : K) (hs : s ≠ 0) :
    ∃ t', (Pose.sim3 r t s).sim3Inv s = Pose.sim3 r.transpose t' (1 / s) := by
  refine ⟨V3.neg ((M3.transpose (M3.smul (1 / s) (M3.smul s r))).mulVec (V3.smul (1 / s) t)), ?_⟩
  ext <;> simp only [Pose.sim3Inv, Pose.sim3, M3.smul, M3.transpose] <;> field_simp

/-- polynomial core of "the scale factor is recovered": `det(s·R) = s³` for a rotation `R`, so the
real cube root that `sim3_scale` takes is `s` for `s > 0` (`sim3_scale_recovered`, over ℝ).
**Partial**: valid in every field, but without the cube root; in the executable model the scale
is an input and the harness checks `sim3_scale(S)³ = det` per case. -/
theorem sim3_scale_recovered_partial (r : M3 K) (t : V3 K) (s : K) (h : IsRot r) :
    (Pose.sim3 r t s).rot.det = s ^ 3 := by
  simp only [Pose.sim3]; rw [M3.det_smul, h.2, mul_one]

end field

section ordered
variable {K : Type} [Field K] [LinearOrder K] [IsStrictOrderedRing K]

/-- on positive scales the cube is injective: `s³ = det` determines `s` -/
theorem sim3_scale_unique (s s' : K) (hs : 0 < s) (hs' : 0 < s') (h : s ^ 3 = s' ^ 3) : s = s' := by
  rcases lt_trichotomy s s' with hlt | heq | hgt
  · have : s ^ 3 < s' ^ 3 := pow_lt_pow_left₀ hlt hs.le (by norm_num)
    exact absurd h (ne_of_lt this)
  · exact heq
  · have : s' ^ 3 < s ^ 3 := pow_lt_pow_left₀ hgt hs'.le (by norm_num)
    exact absurd h.symm (ne_of_lt this)

/-! ### the rotation angle, on its `(cos, sin²)` core -/

/-- **range**: for a rotation the core is a point `(c, s²)` with `c² + s² = 1`, `−1 ≤ c ≤ 1`,
`0 ≤ s² ≤ 1`, so that the angle `atan2(√s², c)` lies in `[0, π]` and has cosine `c` -/
theorem angle_range (a b : M3 K) (ha : IsRot a) (hb : IsRot b) :
    let cs := (relSo3 a b).angleCore
    cs.1 ^ 2 + cs.2 = 1 ∧ -1 ≤ cs.1 ∧ cs.1 ≤ 1 ∧ 0 ≤ cs.2 ∧ cs.2 ≤ 1 := by
  have hr := relSo3_isRot ha hb
  have h1 := hr.angleCore_eq
  have h2 := hr.cos_range
  have h3 : 0 ≤ (relSo3 a b).angleCore.2 := by rw [M3.angleCore_snd]; exact V3.normSq_nonneg _
  refine ⟨h1, h2.1, h2.2, h3, ?_⟩
  nlinarith [sq_nonneg (relSo3 a b).angleCore.1]

/-- **symmetry**: `d(A, B) = d(B, A)` (for all matrices, no hypothesis needed) -/
theorem angle_symm (a b : M3 K) : (relSo3 b a).angleCore = (relSo3 a b).angleCore := by
  rw [relSo3_swap]
  generalize relSo3 a b = m
  apply Prod.ext
  · rfl
  · simp only [M3.angleCore, M3.transpose, V3.normSq, V3.dot]; ring

/-- **left invariance**: `d(T·A, T·B) = d(A, B)` for orthonormal `T` -/
theorem angle_left_invariant (t a b : M3 K) (ht : IsOrtho t) :
    (relSo3 (t.mul a) (t.mul b)).angleCore = (relSo3 a b).angleCore := by
  rw [relSo3_mul_left ht]

/-- **right invariance**: `d(A·T, B·T) = d(A, B)` for orthonormal `T` -/
theorem angle_right_invariant (t a b : M3 K) (ht : IsOrtho t) :
    (relSo3 (a.mul t) (b.mul t)).angleCore = (relSo3 a b).angleCore := by
  rw [relSo3_mul_right]
  generalize relSo3 a b = m
  have h2 : (1 + 1 : K) ≠ 0 := two_ne_zero'
  apply Prod.ext
  · rw [M3.angleCore_fst, M3.angleCore_fst, M3.trace_conj ht]
  · rw [M3.angleCore_snd, M3.angleCore_snd, M3.axisVec_eq, M3.axisVec_eq]
    have key : ((t.transpose.mul m).mul t).axis2.normSq = m.axis2.normSq := by
      have e1 := M3.axis2_normSq_eq_frob ((t.transpose.mul m).mul t)
      have e2 := M3.axis2_normSq_eq_frob m
      rw [M3.sub_transpose_conj, frobSq_mul_right_of_ortho ht, frobSq_mul_left_of_ortho ht.transpose] at e1
      exact mul_left_cancel₀ h2 (e1.trans e2.symm)
    simp only [V3.normSq, V3.dot, V3.smul] at key ⊢
    linear_combination (1 / (1 + 1)) * (1 / (1 + 1)) * key

/-- **zero only for equal rotations**: the core is `(1, 0)` (angle 0) exactly when `A = B` -/
theorem angle_zero_iff_eq (a b : M3 K) (ha : IsOrtho a) (hb : IsOrtho b) :
    (relSo3 a b).angleCore = (1, 0) ↔ a = b := by
  have h2 : (1 + 1 : K) ≠ 0 := two_ne_zero'
  constructor
  · intro h
    have hc : (relSo3 a b).angleCore.1 = 1 := by rw [h]
    rw [M3.angleCore_fst, div_eq_iff h2] at hc
    have ht : (relSo3 a b).trace = 3 := by linear_combination hc
    have hone := (ha.transpose.mul hb).eq_one_of_trace ht
    have := (rel_so3_laws a b ha).1
    rw [show relSo3 a b = M3.one from hone, M3.mul_one'] at this
    exact this
  · rintro rfl
    rw [show relSo3 a a = M3.one from ha]
    apply Prod.ext
    · rw [M3.angleCore_fst, M3.trace_one]; field_simp; norm_num
    · simp [M3.angleCore, M3.one, V3.normSq, V3.dot]

/-- the cosine alone decides: `c = 1 ↔ A = B`, and then `s² = 0` -/
theorem angle_cos_one_iff_eq (a b : M3 K) (ha : IsOrtho a) (hb : IsOrtho b) :
    (relSo3 a b).angleCore.1 = 1 ↔ a = b := by
  constructor
  · intro hc
    have h2 : (1 + 1 : K) ≠ 0 := two_ne_zero'
    rw [M3.angleCore_fst, div_eq_iff h2] at hc
    have ht : (relSo3 a b).trace = 3 := by linear_combination hc
    have hone := (ha.transpose.mul hb).eq_one_of_trace ht
    have := (rel_so3_laws a b ha).1
    rw [show relSo3 a b = M3.one from hone, M3.mul_one'] at this
    exact this
  · intro h
    rw [((angle_zero_iff_eq a b ha hb).mpr h)]

/-! ### exponential and logarithm through Rodrigues' formula -/

/-- `exp(0) = I` (whatever the coefficients) -/
theorem exp_zero (a b : K) : rodrigues (V3.zero : V3 K) a b = M3.one := rodrigues_zero a b

/-- a Rodrigues matrix whose coefficients satisfy `a² + b²‖v‖² = 2b` (true of
`a = sin θ/θ`, `b = (1 − cos θ)/θ²`, `θ = ‖v‖`) is a proper rotation -/
theorem exp_is_rotation (v : V3 K) (a b : K) (h : a * a + b * b * v.normSq = (1 + 1) * b) :
    IsRot (rodrigues v a b) := rodrigues_isRot v a b h

/-- **log ∘ exp, polynomial form.**  For `R = I + a·hat v + b·(hat v)²` the angle core is
`(1 − b‖v‖², a²‖v‖²)` (`= (cos θ, sin² θ)` for the coefficients above) and the axis vector
`vee((R − Rᵀ)/2)` is `a·v`: dividing by `a ≠ 0` (i.e. `sin θ ≠ 0`, `0 < θ < π`) gives `v` back.
**Partial**: the transcendental step `θ = atan2(√s², c)`, `a = sin θ/θ` is not in the model
(scipy is tied by the certificate, the harness checks `log(exp v) = v` for `‖v‖ < π`). -/
theorem log_exp_partial (v : V3 K) (a b : K) (ha : a ≠ 0) :
    (rodrigues v a b).angleCore = (1 - b * v.normSq, a * a * v.normSq) ∧
    V3.smul (1 / a) (rodrigues v a b).axisVec = v := by
  have h2 : (1 + 1 : K) ≠ 0 := two_ne_zero'
  have hax : (rodrigues v a b).axisVec = V3.smul a v := by
    rw [M3.axisVec_eq, rodrigues_axis2]
    ext <;> simp only [V3.smul] <;> field_simp
  refine ⟨?_, ?_⟩
  · apply Prod.ext
    · rw [M3.angleCore_fst, rodrigues_trace]; field_simp; ring
    · rw [M3.angleCore_snd, hax]; simp only [V3.normSq, V3.dot, V3.smul]; ring
  · rw [hax]; ext <;> simp only [V3.smul] <;> field_simp

/-- **exp ∘ log, polynomial form.**  Every rotation with `c ≠ −1` (angle ≠ π) is the Rodrigues
matrix of its axis vector `w = vee((R − Rᵀ)/2)` with coefficients `(1, 1/(1 + c))`; with
`v = (θ/sin θ)·w` this is `exp(log R) = R` (`(1 − cos θ)/sin² θ = 1/(1 + cos θ)`).
**Partial**: angle π is excluded (the axis is then determined only up to sign) and the
transcendental rescaling `w ↦ v` is not in the model. -/
theorem exp_log_partial (r : M3 K) (h : IsRot r) (hc : 1 + r.angleCore.1 ≠ 0) :
    rodrigues r.axisVec 1 (1 / (1 + r.angleCore.1)) = r := by
  have h2 : (1 + 1 : K) ≠ 0 := two_ne_zero'
  have hrod := h.rodrigues
  have hn := h.axis_normSq
  rw [← M3.angleCore_fst] at hn
  set c := r.angleCore.1 with hcdef
  set w := r.axisVec with hw
  have e := fun (f : M3 K → K) => congrArg f hrod
  simp only [V3.normSq, V3.dot] at hn
  -- skew part of R is hat w
  have s01 : r.a01 - r.a10 = -(1 + 1) * w.z := by rw [hw]; simp only [M3.axisVec]; field_simp; ring
  have s02 : r.a02 - r.a20 = (1 + 1) * w.y := by rw [hw]; simp only [M3.axisVec]; field_simp
  have s12 : r.a12 - r.a21 = -(1 + 1) * w.x := by rw [hw]; simp only [M3.axisVec]; field_simp; ring
  have e00 := e M3.a00; have e01 := e M3.a01; have e02 := e M3.a02
  have e11 := e M3.a11; have e12 := e M3.a12; have e22 := e M3.a22
  simp only [M3.smul, M3.add, M3.transpose, M3.one, M3.outer] at e00 e01 e02 e11 e12 e22
  ext <;> simp only [rodrigues, M3.add, M3.smul, M3.mul, M3.hat, M3.one] <;> field_simp
  · linear_combination (-1) * e00 - hn
  · linear_combination (-1) * e01 - ((1 + c) / (1 + 1)) * s01
  · linear_combination (-1) * e02 - ((1 + c) / (1 + 1)) * s02
  · linear_combination (-1) * e01 + ((1 + c) / (1 + 1)) * s01
  · linear_combination (-1) * e11 - hn
  · linear_combination (-1) * e12 - ((1 + c) / (1 + 1)) * s12
  · linear_combination (-1) * e02 + ((1 + c) / (1 + 1)) * s02
  · linear_combination (-1) * e12 + ((1 + c) / (1 + 1)) * s12
  · linear_combination (-1) * e22 - hn

end ordered

/-! ### membership tests (`is_so3`, `is_se3`, `is_sim3`) -/

/-- every exact rotation is accepted -/
theorem so3_accepts_rotations (r : M3 ℚ) (h : IsRot r) : isSo3Tol r = true := by
  unfold isSo3Tol
  rw [h.2, show M3.mul (M3.transpose r) r = M3.one from h.1, isClose_self_one, allClose_one]; rfl

/-- every exact rigid pose with bottom row `0 0 0 1` is accepted by `is_se3` -/
theorem se3_accepts_rigid (r : M3 ℚ) (t : V3 ℚ) (h : IsRot r) : isSe3Tol (Mat4.se3 r t) = true := by
  unfold isSe3Tol; simp only [Mat4.se3]; rw [so3_accepts_rotations r h]; simp [bottomOk]

/-- reflections (orthonormal, determinant −1) are rejected -/
theorem so3_rejects_reflection (r : M3 ℚ) (_h : IsOrtho r) (hd : r.det = -1) : isSo3Tol r = false := by
  unfold isSo3Tol
  rw [hd, show isClose (-1) 1 = false by decide +kernel]; rfl

/-- a rotation block scaled by `k` with `|k³ − 1| > 1.1e-5` is rejected (determinant test);
`1.1e-5 = atol + rtol·1` is the effective tolerance of `np.allclose(det, 1, atol=1e-6)` -/
theorem so3_rejects_scaled (r : M3 ℚ) (k : ℚ) (h : IsRot r) (hk : 11 / 1000000 < |k ^ 3 - 1|) :
    isSo3Tol (M3.smul k r) = false := by
  unfold isSo3Tol
  have : isClose (M3.smul k r).det 1 = false := by
    rw [Bool.eq_false_iff, ne_eq, isClose_one_iff, M3.det_smul, h.2, mul_one]
    exact not_le.mpr hk
  rw [this]; rfl

/-- … and so is one with `|k² − 1| > 1.1e-5` (diagonal of `RᵀR`) -/
theorem so3_rejects_scaled_diag (r : M3 ℚ) (k : ℚ) (h : IsRot r) (hk : 11 / 1000000 < |k ^ 2 - 1|) :
    isSo3Tol (M3.smul k r) = false := by
  unfold isSo3Tol
  have hg : M3.mul (M3.transpose (M3.smul k r)) (M3.smul k r) = M3.smul (k ^ 2) M3.one := by
    have : M3.mul (M3.transpose (M3.smul k r)) (M3.smul k r) = M3.smul (k ^ 2) (r.transpose.mul r) := by
      ext <;> simp only [M3.mul, M3.transpose, M3.smul] <;> ring
    rw [this, show r.transpose.mul r = M3.one from h.1]
  have : isClose (M3.mul (M3.transpose (M3.smul k r)) (M3.smul k r)).a00 (M3.one : M3 ℚ).a00 = false := by
    rw [hg, Bool.eq_false_iff, ne_eq]
    simp only [M3.smul, M3.one, mul_one]
    rw [isClose_one_iff]
    exact not_le.mpr hk
  unfold allClose
  rw [this]; simp

/-- a sheared rotation block `R·(I + k·e₀e₁ᵀ)` with `|k| > 1e-6` is rejected (off-diagonal of `RᵀR`) -/
theorem so3_rejects_sheared (r : M3 ℚ) (k : ℚ) (h : IsRot r) (hk : 1 / 1000000 < |k|) :
    isSo3Tol (r.mul ⟨1, k, 0, 0, 1, 0, 0, 0, 1⟩) = false := by
  unfold isSo3Tol
  set s : M3 ℚ := ⟨1, k, 0, 0, 1, 0, 0, 0, 1⟩ with hs
  have hg : M3.mul (M3.transpose (r.mul s)) (r.mul s) = s.transpose.mul s := by
    rw [M3.transpose_mul, M3.mul_assoc', ← M3.mul_assoc' r.transpose, show r.transpose.mul r = M3.one from h.1,
      M3.one_mul']
  have : isClose (M3.mul (M3.transpose (r.mul s)) (r.mul s)).a01 (M3.one : M3 ℚ).a01 = false := by
    rw [hg, Bool.eq_false_iff, ne_eq]
    simp only [hs, M3.mul, M3.transpose, M3.one]
    rw [isClose_zero_iff]
    have : (1 : ℚ) * k + 0 * 1 + 0 * 0 = k := by ring
    rw [this]
    exact not_le.mpr hk
  unfold allClose
  rw [this]; simp

/-- a bottom row other than `0 0 0 1` is rejected by `is_se3` and `is_sim3`, whatever the rest -/
theorem se3_rejects_bottom_row (m : Mat4 ℚ) (s : ℚ) (hb : ¬ (m.b0 = 0 ∧ m.b1 = 0 ∧ m.b2 = 0 ∧ m.b3 = 1)) :
    isSe3Tol m = false ∧ isSim3Tol m s = false := by
  have : bottomOk m = false := by
    unfold bottomOk
    rw [Bool.eq_false_iff]
    intro hc
    simp only [Bool.and_eq_true, decide_eq_true_eq] at hc
    exact hb ⟨hc.1.1.1, hc.1.1.2, hc.1.2, hc.2⟩
  unfold isSe3Tol isSim3Tol
  rw [this]; simp

/-- `sim3(R, t, s)` with a rotation `R` and `s ≠ 0` is accepted by `is_sim3(·, s)` -/
theorem sim3_accepts_scaled_rotation (r : M3 ℚ) (t : V3 ℚ) (s : ℚ) (h : IsRot r) (hs : s ≠ 0) :
    isSim3Tol (Mat4.sim3 r t s) s = true := by
  unfold isSim3Tol
  simp only [Mat4.sim3, Pose.sim3]
  rw [M3.smul_smul, one_div, inv_mul_cancel₀ hs, M3.one_smul', so3_accepts_rotations r h]; simp [bottomOk]

/-! ### the angle itself, over ℝ: `angleR a b = atan2(√s², c)` -/
section real
open Real

/-- **the scale factor is recovered**: `sim3_scale(sim3(R, t, s)) = det(s·R)^(1/3) = s` for `s > 0`
(real power, as `numpy.power(·, 1/3)`) -/
theorem sim3_scale_recovered (r : M3 ℝ) (t : V3 ℝ) (s : ℝ) (h : IsRot r) (hs : 0 < s) :
    (Pose.sim3 r t s).rot.det ^ ((1 : ℝ) / 3) = s := by
  rw [sim3_scale_recovered_partial r t s h]
  have h3 : ((1 : ℝ) / 3) = ((3 : ℕ) : ℝ)⁻¹ := by norm_num
  rw [h3]
  exact Real.pow_rpow_inv_natCast hs.le (by norm_num)

/-- **range** `[0, π]` (for all matrices: the imaginary part `√s²` is non-negative) -/
theorem angle_range_real (a b : M3 ℝ) : 0 ≤ angleR a b ∧ angleR a b ≤ π :=
  atan2_range _ _ (Real.sqrt_nonneg _)

/-- angle facts of a single rotation `R`: `θ = atan2(√s², c)` is `arccos c ∈ [0, π]`, `cos θ = c`,
`sin θ = √s²` -/
theorem rot_angle_facts (r : M3 ℝ) (h : IsRot r) :
    atan2 (√r.angleCore.2) r.angleCore.1 = Real.arccos r.angleCore.1 ∧
    Real.cos (Real.arccos r.angleCore.1) = r.angleCore.1 ∧
    Real.sin (Real.arccos r.angleCore.1) = √r.angleCore.2 := by
  have h1 := h.angleCore_eq
  obtain ⟨h2, h3⟩ := h.cos_range
  set c := r.angleCore.1 with hc
  set s2 := r.angleCore.2 with hs
  have hcos : Real.cos (Real.arccos c) = c := Real.cos_arccos h2 h3
  have hsin : Real.sin (Real.arccos c) = √s2 := by
    rw [Real.sin_arccos]; congr 1; linarith
  have hmem : Real.arccos c ∈ Set.Ioc (-π) π :=
    ⟨by linarith [Real.arccos_nonneg c, Real.pi_pos], Real.arccos_le_pi c⟩
  refine ⟨?_, hcos, hsin⟩
  have := atan2_cos_sin (Real.arccos c) hmem
  rw [hcos, hsin] at this
  exact this

/-- for rotations the angle is `arccos((tr(AᵀB) − 1)/2)`: its cosine is the core's `c`, its
squared sine the core's `s²` -/
theorem angle_eq_arccos (a b : M3 ℝ) (ha : IsRot a) (hb : IsRot b) :
    angleR a b = Real.arccos (relSo3 a b).angleCore.1 ∧
    Real.cos (angleR a b) = (relSo3 a b).angleCore.1 ∧
    Real.sin (angleR a b) ^ 2 = (relSo3 a b).angleCore.2 := by
  obtain ⟨key, hcos, hsin⟩ := rot_angle_facts (relSo3 a b) (relSo3_isRot ha hb)
  have h4 : 0 ≤ (relSo3 a b).angleCore.2 := by rw [M3.angleCore_snd]; exact V3.normSq_nonneg _
  unfold angleR
  refine ⟨key, by rw [key, hcos], ?_⟩
  rw [key, hsin, Real.sq_sqrt h4]

/-- **symmetric** -/
theorem angle_symm_real (a b : M3 ℝ) : angleR b a = angleR a b := by
  unfold angleR; rw [angle_symm]

/-- **left-invariant** -/
theorem angle_left_invariant_real (t a b : M3 ℝ) (ht : IsOrtho t) :
    angleR (t.mul a) (t.mul b) = angleR a b := by
  unfold angleR; rw [angle_left_invariant t a b ht]

/-- **right-invariant** -/
theorem angle_right_invariant_real (t a b : M3 ℝ) (ht : IsOrtho t) :
    angleR (a.mul t) (b.mul t) = angleR a b := by
  unfold angleR; rw [angle_right_invariant t a b ht]

/-- **zero only for equal rotations** -/
theorem angle_zero_iff_eq_real (a b : M3 ℝ) (ha : IsRot a) (hb : IsRot b) :
    angleR a b = 0 ↔ a = b := by
  obtain ⟨h1, h2, h3, h4, _⟩ := angle_range a b ha hb
  unfold angleR
  rw [atan2_eq_zero_iff, ← angle_cos_one_iff_eq a b ha.1 hb.1]
  constructor
  · rintro ⟨hc, hs⟩
    have hs0 : (relSo3 a b).angleCore.2 = 0 := le_antisymm (Real.sqrt_eq_zero'.mp hs) h4
    rw [hs0] at h1
    nlinarith
  · intro hc
    rw [hc] at h1 ⊢
    have hs0 : (relSo3 a b).angleCore.2 = 0 := by linarith
    rw [hs0]; simp

/-- **triangle inequality** of the rotation angle, for all proper rotations:
`d(A, C) ≤ d(A, B) + d(B, C)`.  Through unit quaternions (`Lemmas/QuatAngle.lean`): a rotation of
angle `< π` is `quatRot q` (Shepperd), `tr(R(p)ᵀR(q)) = 4⟨p,q⟩² − 1`, so the angle is
`2·arccos|⟨p,q⟩|`, twice the metric of projective 3-space, whose triangle inequality is Mathlib's
`angle_le_angle_add_angle` on `p, ±q, ±r`; a relative rotation of angle exactly π already has the
largest possible angle. -/
theorem angle_triangle (a b c : M3 ℝ) (ha : IsRot a) (hb : IsRot b) (hc : IsRot c) :
    angleR a c ≤ angleR a b + angleR b c := by
  rw [(angle_eq_arccos a c ha hc).1, (angle_eq_arccos a b ha hb).1, (angle_eq_arccos b c hb hc).1]
  have hmul : relSo3 a c = (relSo3 a b).mul (relSo3 b c) := by
    unfold relSo3
    rw [M3.mul_assoc', ← M3.mul_assoc' b, hb.1.mul_transpose, M3.one_mul']
  rw [hmul]
  exact arccos_core_mul_le _ _ (relSo3_isRot ha hb) (relSo3_isRot hb hc)

/-- the rotation angle is a metric on SO(3): all four axioms together, plus bi-invariance -/
theorem angle_is_biinvariant_metric (a b c t : M3 ℝ) (ha : IsRot a) (hb : IsRot b) (hc : IsRot c)
    (ht : IsRot t) :
    (0 ≤ angleR a b ∧ angleR a b ≤ π) ∧ (angleR a b = 0 ↔ a = b) ∧ angleR b a = angleR a b ∧
    angleR a c ≤ angleR a b + angleR b c ∧
    angleR (t.mul a) (t.mul b) = angleR a b ∧ angleR (a.mul t) (b.mul t) = angleR a b :=
  ⟨angle_range_real a b, angle_zero_iff_eq_real a b ha hb, angle_symm_real a b,
   angle_triangle a b c ha hb hc, angle_left_invariant_real t a b ht.1, angle_right_invariant_real t a b ht.1⟩

/-! ### exp and log over ℝ (`expR`, `logR` of `Lemmas/Lie.lean`: Rodrigues with `θ = ‖v‖`) -/

/-- `exp v` is a proper rotation for every rotation vector -/
theorem exp_is_rotation_real (v : V3 ℝ) : IsRot (expR v) := by
  apply rodrigues_isRot
  have hn : √v.normSq * √v.normSq = v.normSq := Real.mul_self_sqrt (V3.normSq_nonneg v)
  have := sinc_cosc_rel (√v.normSq)
  rw [hn] at this
  exact this

/-- `exp 0 = I` -/
theorem exp_zero_real : expR V3.zero = M3.one := rodrigues_zero _ _

/-- **log ∘ exp = id** on the open ball `0 < ‖v‖ < π`.  **Partial** w.r.t. the property only in
that `expR`/`logR` are the mathematical functions (scipy is tied by the certificate) and that
`‖v‖ = 0` is `exp_zero_real` + `logR I = 0` (`log_one_real`). -/
theorem log_exp_real_partial (v : V3 ℝ) (h0 : 0 < v.normSq) (hpi : v.normSq < π ^ 2) :
    logR (expR v) = v := by
  have hθpos : 0 < √v.normSq := Real.sqrt_pos.mpr h0
  have hθpi : √v.normSq < π := by
    calc √v.normSq < √(π ^ 2) := Real.sqrt_lt_sqrt h0.le hpi
      _ = π := Real.sqrt_sq Real.pi_pos.le
  have hn : v.normSq = √v.normSq * √v.normSq := (Real.mul_self_sqrt h0.le).symm
  unfold expR
  set θ := √v.normSq with hθ
  have hsin : 0 < sin θ := Real.sin_pos_of_pos_of_lt_pi hθpos hθpi
  have ha : sincR θ = sin θ / θ := by unfold sincR; rw [if_neg hθpos.ne']
  have hb : coscR θ = (1 - cos θ) / θ ^ 2 := by unfold coscR; rw [if_neg hθpos.ne']
  have hane : sincR θ ≠ 0 := by rw [ha]; positivity
  obtain ⟨hcore, hax⟩ := log_exp_partial v (sincR θ) (coscR θ) hane
  have hc : (rodrigues v (sincR θ) (coscR θ)).angleCore.1 = cos θ := by
    rw [hcore]; simp only; rw [hb, hn]; field_simp; ring
  have hs : (rodrigues v (sincR θ) (coscR θ)).angleCore.2 = sin θ ^ 2 := by
    rw [hcore]; simp only; rw [ha, hn]; field_simp
  have hang : atan2 (√(rodrigues v (sincR θ) (coscR θ)).angleCore.2)
      (rodrigues v (sincR θ) (coscR θ)).angleCore.1 = θ := by
    rw [hc, hs, Real.sqrt_sq hsin.le]
    exact atan2_cos_sin θ ⟨by linarith [Real.pi_pos], hθpi.le⟩
  unfold logR
  rw [hang, if_neg hsin.ne']
  have hk : θ / sin θ = 1 / sincR θ := by rw [ha]; field_simp
  rw [hk]; exact hax

/-- `log I = 0` -/
theorem log_one_real : logR M3.one = V3.zero := by
  have : (M3.one : M3 ℝ).angleCore = (1, 0) := by
    apply Prod.ext
    · rw [M3.angleCore_fst, M3.trace_one]; norm_num
    · simp [M3.angleCore, M3.one, V3.normSq, V3.dot]
  unfold logR
  rw [this]
  have h0 : atan2 (√(0 : ℝ)) 1 = 0 := by rw [atan2_eq_zero_iff]; simp
  simp only [h0, Real.sin_zero, if_true]

/-- **exp ∘ log = id** on all rotations with angle `≠ π` (`c ≠ −1`).  **Partial**: angle π
(axis sign undetermined) is excluded. -/
theorem exp_log_real_partial (r : M3 ℝ) (h : IsRot r) (hπ : r.angleCore.1 ≠ -1) :
    expR (logR r) = r := by
  obtain ⟨hang, hcos, hsin⟩ := rot_angle_facts r h
  have h1 := h.angleCore_eq
  obtain ⟨h2, h3⟩ := h.cos_range
  have hs2 : 0 ≤ r.angleCore.2 := by rw [M3.angleCore_snd]; exact V3.normSq_nonneg _
  have hnw : r.axisVec.normSq = r.angleCore.2 := (M3.angleCore_snd r).symm
  rcases eq_or_lt_of_le h3 with hc1 | hclt
  · -- angle 0: R = I
    have ht : r.trace = 3 := by
      rw [M3.angleCore_fst] at hc1
      have : r.trace - 1 = 1 * (1 + 1) := (div_eq_iff (two_ne_zero' (K := ℝ))).mp hc1
      linarith
    have hone := h.1.eq_one_of_trace ht
    rw [hone, log_one_real, exp_zero_real]
  · -- 0 < θ < π
    set c := r.angleCore.1 with hc
    set s2 := r.angleCore.2 with hs
    set θ := Real.arccos c with hθ
    have hθpos : 0 < θ := Real.arccos_pos.mpr hclt
    have hcm : -1 < c := lt_of_le_of_ne h2 (Ne.symm hπ)
    have hs2pos : 0 < s2 := by nlinarith
    have hsinpos : 0 < sin θ := by rw [hsin]; exact Real.sqrt_pos.mpr hs2pos
    have hsinsq : sin θ ^ 2 = s2 := by rw [hsin, Real.sq_sqrt hs2]
    have hlog : logR r = V3.smul (θ / sin θ) r.axisVec := by
      unfold logR
      rw [← hc, ← hs, hang, if_neg hsinpos.ne']
    have hnorm : (logR r).normSq = θ * θ := by
      rw [hlog]
      have : (V3.smul (θ / sin θ) r.axisVec).normSq = (θ / sin θ) ^ 2 * r.axisVec.normSq := by
        simp only [V3.normSq, V3.dot, V3.smul]; ring
      rw [this, hnw, ← hsinsq]; field_simp
    unfold expR
    rw [hnorm, Real.sqrt_mul_self hθpos.le, hlog, rodrigues_smul]
    have ha : sincR θ * (θ / sin θ) = 1 := by
      unfold sincR; rw [if_neg hθpos.ne']; field_simp
    have hb : coscR θ * (θ / sin θ) ^ 2 = 1 / (1 + c) := by
      unfold coscR; rw [if_neg hθpos.ne', hcos]
      have hne : (1 : ℝ) + c ≠ 0 := by linarith
      have hsq : sin θ ^ 2 = (1 - c) * (1 + c) := by rw [hsinsq]; linarith
      field_simp
      rw [hsq]
    rw [ha, hb]
    exact exp_log_partial r h (by rw [← hc]; linarith)

/-! ### exp and log on the whole group, including rotation angle exactly π

`logRFull R` (`Lemmas/LieAtPi.lean`) is `logR R` for `c ≠ −1` and `π·piAxis R` for `c = −1`, where
`piAxis R` is the largest column of `P = (R + I)/2 = n nᵀ` divided by the root of its diagonal entry
(what scipy's `as_rotvec` does through the quaternion of largest component). -/

/-- rotation by π about x: `diag(1, −1, −1)` (non-vacuity witness for the angle-π theorems) -/
def rxPi : M3 ℝ := ⟨1, 0, 0, 0, -1, 0, 0, 0, -1⟩
/-- rotation by π about `(1, 1, 0)/√2`: swaps x and y, negates z (a tie on the diagonal of `P`) -/
def rSwapPi : M3 ℝ := ⟨0, 1, 0, 1, 0, 0, 0, 0, -1⟩

theorem rxPi_isRot : IsRot rxPi := by
  constructor
  · unfold IsOrtho; ext <;> simp [rxPi, M3.mul, M3.transpose, M3.one]
  · simp [rxPi, M3.det]

theorem rxPi_core : rxPi.angleCore.1 = -1 := by
  rw [M3.angleCore_fst]; simp only [rxPi, M3.trace]; norm_num

theorem rSwapPi_isRot : IsRot rSwapPi := by
  constructor
  · unfold IsOrtho; ext <;> simp [rSwapPi, M3.mul, M3.transpose, M3.one]
  · simp [rSwapPi, M3.det]

theorem rSwapPi_core : rSwapPi.angleCore.1 = -1 := by
  rw [M3.angleCore_fst]; simp only [rSwapPi, M3.trace]; norm_num

/-- **exp ∘ log = id on all of SO(3)**, rotation angle π included.  For evo: `so3_exp(so3_log(R)) = R`
for every proper rotation `R`; `so3_exp`/`so3_log` are mutually inverse over the whole group incl.
angle π (together with `log_exp_real`, `log_exp_real_at_pi`). -/
theorem exp_log_real (r : M3 ℝ) (h : IsRot r) : expR (logRFull r) = r := by
  unfold logRFull
  split_ifs with hc
  · exact expR_of_outer_eq_piP r _ (piAxis_normSq h hc) (piAxis_outer h hc)
  · exact exp_log_real_partial r h hc

-- non-vacuity: the π-branch is reached (`diag(1,−1,−1)` and the x↔y swap are rotations with `c = −1`),
-- and there the logarithm is the expected vector `(π, 0, 0)`
example : IsRot rxPi ∧ rxPi.angleCore.1 = -1 := ⟨rxPi_isRot, rxPi_core⟩
example : IsRot rSwapPi ∧ rSwapPi.angleCore.1 = -1 := ⟨rSwapPi_isRot, rSwapPi_core⟩
example : logRFull rxPi = ⟨π, 0, 0⟩ := by
  have hp : rxPi.piP = ⟨1, 0, 0, 0, 0, 0, 0, 0, 0⟩ := by
    ext <;> norm_num [rxPi, M3.piP, M3.smul, M3.add, M3.one]
  unfold logRFull piAxis piAxisOf
  rw [if_pos rxPi_core, hp]
  ext <;> simp [V3.smul, M3.col0]
example : expR (logRFull rxPi) = rxPi := exp_log_real rxPi rxPi_isRot
example : expR (⟨π, 0, 0⟩ : V3 ℝ) = rxPi := by
  have := expR_pi_axis ⟨1, 0, 0⟩ (by simp [V3.normSq, V3.dot])
  rw [show V3.smul π (⟨1, 0, 0⟩ : V3 ℝ) = ⟨π, 0, 0⟩ by ext <;> simp [V3.smul]] at this
  rw [this]; ext <;> norm_num [rxPi, M3.smul, M3.add, M3.outer, M3.one]

/-- at angle π **every** unit `n` with `n nᵀ = (R + I)/2` gives a logarithm `π·n` of `R` (there are
exactly two, `±piAxis R`): evo's `so3_exp` maps whichever of the two `so3_log` returns back to `R`.
(`2 n nᵀ − I = R` is an identity; the hypotheses `IsRot`, `c = −1` only say when such an `n` exists.) -/
theorem exp_of_any_pi_log (r : M3 ℝ) (_h : IsRot r) (_hc : r.angleCore.1 = -1) (n : V3 ℝ)
    (hn : n.normSq = 1) (hP : M3.outer n n = r.piP) : expR (V3.smul π n) = r :=
  expR_of_outer_eq_piP r n hn hP

-- non-vacuity: both `(1,0,0)` and `(−1,0,0)` satisfy the hypotheses for `diag(1,−1,−1)`
example : (⟨-1, 0, 0⟩ : V3 ℝ).normSq = 1 ∧ M3.outer (⟨-1, 0, 0⟩ : V3 ℝ) ⟨-1, 0, 0⟩ = rxPi.piP := by
  constructor
  · simp [V3.normSq, V3.dot]
  · ext <;> norm_num [rxPi, M3.piP, M3.smul, M3.add, M3.one, M3.outer]
example : (⟨1, 0, 0⟩ : V3 ℝ).normSq = 1 ∧ M3.outer (⟨1, 0, 0⟩ : V3 ℝ) ⟨1, 0, 0⟩ = rxPi.piP := by
  constructor
  · simp [V3.normSq, V3.dot]
  · ext <;> norm_num [rxPi, M3.piP, M3.smul, M3.add, M3.one, M3.outer]

/-- log ∘ exp on the sphere `‖v‖ = π`, unit-axis form -/
theorem log_exp_pi_unit (u : V3 ℝ) (hu : u.normSq = 1) :
    logRFull (expR (V3.smul π u)) = V3.smul π u ∨
    logRFull (expR (V3.smul π u)) = V3.smul (-1) (V3.smul π u) := by
  have hR := expR_pi_axis u hu
  have hrot : IsRot (expR (V3.smul π u)) := exp_is_rotation_real _
  have hc : (expR (V3.smul π u)).angleCore.1 = -1 := by
    rw [expR_angleCore_fst, V3.normSq_smul, hu, mul_one, Real.sqrt_sq Real.pi_pos.le, Real.cos_pi]
  have hout : M3.outer (piAxis (expR (V3.smul π u))) (piAxis (expR (V3.smul π u))) = M3.outer u u := by
    rw [piAxis_outer hrot hc, hR, M3.piP_two_outer_sub_one]
  unfold logRFull
  rw [if_pos hc]
  rcases eq_or_neg_of_outer_eq hu hout with e | e
  · left; rw [e]
  · right; rw [e]; ext <;> simp only [V3.smul] <;> ring

/-- **log ∘ exp at rotation angle exactly π** (`‖v‖ = π`): the logarithm returns the vector or its
negative — `v` and `−v` are both logarithms of the same rotation (`exp v = exp(−v)` there), so
nothing better can hold.  For evo: `so3_log(so3_exp(v)) = ±v` when `‖v‖ = π`. -/
theorem log_exp_real_at_pi (v : V3 ℝ) (h : v.normSq = π ^ 2) :
    logRFull (expR v) = v ∨ logRFull (expR v) = V3.smul (-1) v := by
  have hπ : π ≠ 0 := Real.pi_pos.ne'
  have hv : v = V3.smul π (V3.smul (1 / π) v) := by
    ext <;> simp only [V3.smul] <;> field_simp
  have hu : (V3.smul (1 / π) v).normSq = 1 := by
    rw [V3.normSq_smul, h]; field_simp
  have := log_exp_pi_unit _ hu
  rw [← hv] at this
  exact this

-- non-vacuity: `(π, 0, 0)` lies on the sphere
example : (⟨π, 0, 0⟩ : V3 ℝ).normSq = π ^ 2 := by simp [V3.normSq, V3.dot]; ring

/-- **log ∘ exp = id on the whole open ball** `‖v‖ < π`, `v = 0` included.  For evo:
`so3_log(so3_exp(v)) = v`; with `exp_log_real` and `log_exp_real_at_pi`, `so3_exp`/`so3_log` are
mutually inverse over the whole group incl. angle π (where the rotation vector is unique up to
sign). -/
theorem log_exp_real (v : V3 ℝ) (hpi : v.normSq < π ^ 2) : logRFull (expR v) = v := by
  have hθpi : √v.normSq < π := by
    calc √v.normSq < √(π ^ 2) := Real.sqrt_lt_sqrt (V3.normSq_nonneg v) hpi
      _ = π := Real.sqrt_sq Real.pi_pos.le
  have hc : (expR v).angleCore.1 ≠ -1 := by
    rw [expR_angleCore_fst]
    have := Real.cos_lt_cos_of_nonneg_of_le_pi (Real.sqrt_nonneg v.normSq) le_rfl hθpi
    rw [Real.cos_pi] at this
    exact this.ne'
  unfold logRFull
  rw [if_neg hc]
  rcases (V3.normSq_nonneg v).eq_or_lt with h0 | h0
  · rw [V3.eq_zero_of_normSq h0.symm, exp_zero_real, log_one_real]
  · exact log_exp_real_partial v h0 hpi

-- non-vacuity: the zero vector and `(1, 0, 0)` are in the ball (`1 < 4 ≤ π²`)
example : (V3.zero : V3 ℝ).normSq < π ^ 2 := by
  simp only [V3.normSq, V3.dot, V3.zero]; nlinarith [Real.two_le_pi]
example : (⟨1, 0, 0⟩ : V3 ℝ).normSq < π ^ 2 := by
  simp only [V3.normSq, V3.dot]; nlinarith [Real.two_le_pi]

end real

/-! ### non-vacuity: concrete instances of the hypotheses -/

/-- rotation by the 3-4-5 angle about z -/
def r345 : M3 ℚ := ⟨3/5, -4/5, 0, 4/5, 3/5, 0, 0, 0, 1⟩
/-- rotation by 90° about x -/
def rx90 : M3 ℚ := ⟨1, 0, 0, 0, 0, -1, 0, 1, 0⟩

example : IsRot r345 := ⟨by unfold IsOrtho; decide +kernel, by decide +kernel⟩
example : IsRot rx90 := ⟨by unfold IsOrtho; decide +kernel, by decide +kernel⟩
example : IsRigid (⟨r345, ⟨1, 2, 3⟩⟩ : Pose ℚ) := by unfold IsRigid IsOrtho; decide +kernel
example : (relSo3 r345 rx90).angleCore = (-1/5, 24/25) := by decide +kernel
example : (relSo3 r345 r345).angleCore = (1, 0) := by decide +kernel
example : IsOrtho (⟨1, 0, 0, 0, 1, 0, 0, 0, -1⟩ : M3 ℚ) ∧ (⟨1, 0, 0, 0, 1, 0, 0, 0, -1⟩ : M3 ℚ).det = -1 :=
  ⟨by unfold IsOrtho; decide +kernel, by decide +kernel⟩
example : (11 : ℚ) / 1000000 < |(101 / 100 : ℚ) ^ 3 - 1| := by norm_num [abs_of_pos]
-- the Rodrigues hypothesis with θ² = ‖v‖² = 1 is met by rational points of the circle:
-- a = sin θ/θ = 4/5, b = (1 − cos θ)/θ² = 2/5  (cos = 3/5)
example : ((4 : ℚ) / 5) * (4 / 5) + (2 / 5) * (2 / 5) * (⟨0, 0, 1⟩ : V3 ℚ).normSq = (1 + 1) * (2 / 5) := by
  decide +kernel
example : rodrigues (⟨0, 0, 1⟩ : V3 ℚ) (4 / 5) (2 / 5) = r345 := by decide +kernel
example : 1 + r345.angleCore.1 ≠ 0 := by decide +kernel
example : isSo3Tol (M3.smul (1000004 / 1000000) r345) = false ∧ isSo3Tol (M3.smul (1000003 / 1000000) r345) = true := by
  constructor <;> decide +kernel

end Evo.C09
