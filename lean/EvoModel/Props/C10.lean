/-
C10 — RPE pair selection returns exactly the pairs that realise the requested delta.
Property theorems about `Evo.Pairs` (model of evo/core/filters.py `filter_pairs_by_index/_path/_angle`,
metrics.py `id_pairs_from_delta`, geometry.py `accumulated_distances`). Helper lemmas live in
`Lemmas/Pairs.lean`.

Vocabulary: `span l i j` is the sum of the increments `l[i] … l[j−1]`: the path length travelled
between poses `i` and `j` for `l = steps`, the accumulated rotation for `l = cang`. The number of
poses is `steps.length + 1` (`cang.length + 1`).
-/
import EvoModel.Lemmas.Pairs
namespace Evo.C10
open Evo Evo.Pairs

/-! ## `accumulated_distances` -/

/-- `accumulated_distances` has one entry per pose, starts at 0, and entry `k` is the sum of the
first `k` step lengths; so differences of entries are travelled path lengths. -/
theorem accDist_spec (steps : List Rat) :
    (accDist steps).length = steps.length + 1 ∧
    ∀ k (h : k < (accDist steps).length), (accDist steps)[k] = psum steps k :=
  ⟨accDist_length steps, accDist_getElem steps⟩

theorem accDist_diff_eq_span (steps : List Rat) (i j : Nat) (hi : i < (accDist steps).length)
    (hj : j < (accDist steps).length) : (accDist steps)[j] - (accDist steps)[i] = span steps i j := by
  rw [accDist_getElem, accDist_getElem]; rfl

/-! ## delta in frames -/

/-- all-pairs mode: exactly the pairs with `j − i = δ` -/
theorem index_all_iff (n δ : Nat) (i j : Nat) :
    (i, j) ∈ pairsByIndex n δ true ↔ j = i + δ ∧ j < n := by
  simp only [pairsByIndex, if_true, List.mem_filterMap, List.mem_range]
  constructor
  · rintro ⟨a, ha, h⟩
    split at h
    · next hlt => simp only [Option.some.injEq, Prod.mk.injEq] at h; omega
    · exact absurd h (by simp)
  · rintro ⟨rfl, h⟩
    exact ⟨i, by omega, by simp [h]⟩

/-- all-pairs mode: each start pose at most once, in increasing order -/
theorem index_all_sorted (n δ : Nat) :
    ((pairsByIndex n δ true).map Prod.fst).Pairwise (· < ·) := by
  simp only [pairsByIndex, if_true]
  apply filterMap_range_fst_lt
  intro a p hp
  split at hp
  · simp only [Option.some.injEq] at hp; subst hp; rfl
  · exact absurd hp (by simp)

/-- consecutive mode: the chain `0→δ→2δ→…` as long as it stays inside the trajectory -/
theorem index_consec_chain (n δ : Nat) (hδ : 1 ≤ δ) :
    pairsByIndex n δ false = (List.range ((n - 1) / δ)).map (fun m => (m * δ, (m + 1) * δ)) := by
  have hlen : (n + δ - 1) / δ - 1 = (n - 1) / δ := by
    rcases Nat.eq_zero_or_pos n with rfl | hn
    · simp only [Nat.zero_add, Nat.zero_sub, Nat.zero_div]
      rw [Nat.div_eq_of_lt (by omega)]
    · have : n + δ - 1 = (n - 1) + δ := by omega
      rw [this, Nat.add_div_right _ (by omega), Nat.add_sub_cancel]
  simp only [pairsByIndex, Bool.false_eq_true, if_false]
  apply List.ext_getElem
  · simp [chainPairs_length, arange, hlen]
  · intro k h1 h2
    rw [chainPairs_getElem]
    simp [arange]

theorem index_consec_iff (n δ : Nat) (hδ : 1 ≤ δ) (i j : Nat) :
    (i, j) ∈ pairsByIndex n δ false ↔ ∃ m, i = m * δ ∧ j = (m + 1) * δ ∧ j < n := by
  rw [index_consec_chain n δ hδ]
  simp only [List.mem_map, List.mem_range, Prod.mk.injEq]
  have key : ∀ m, m < (n - 1) / δ ↔ (m + 1) * δ < n := by
    intro m
    rw [show m < (n - 1) / δ ↔ m + 1 ≤ (n - 1) / δ from Iff.rfl, Nat.le_div_iff_mul_le (by omega)]
    have : 0 < (m + 1) * δ := Nat.mul_pos (by omega) (by omega)
    omega
  constructor
  · rintro ⟨m, hm, rfl, rfl⟩
    exact ⟨m, rfl, rfl, (key m).mp hm⟩
  · rintro ⟨m, rfl, rfl, h⟩
    exact ⟨m, (key m).mpr h, rfl, rfl⟩

theorem pairs_bounds_index (n δ : Nat) (allPairs : Bool) (hδ : 1 ≤ δ) (i j : Nat)
    (h : (i, j) ∈ pairsByIndex n δ allPairs) : i < j ∧ j < n ∧ j - i = δ := by
  cases allPairs with
  | true =>
    obtain ⟨rfl, h2⟩ := (index_all_iff n δ i j).mp h
    omega
  | false =>
    obtain ⟨m, rfl, rfl, h2⟩ := (index_consec_iff n δ hδ i j).mp h
    have : (m + 1) * δ = m * δ + δ := by rw [Nat.add_mul, Nat.one_mul]
    omega

/-! ## delta in meters / radians / degrees, consecutive mode

Both selectors run the same greedy loop; `l` is `steps` resp. `cang`. -/

/-- each pair starts where the previous one ended (path) -/
theorem consec_is_chain_path (steps : List Rat) (δ : Rat) (k : Nat)
    (h : k + 1 < (pairsByPathConsec steps δ).length) :
    (pairsByPathConsec steps δ)[k + 1].1 = (pairsByPathConsec steps δ)[k].2 := by
  unfold pairsByPathConsec at h ⊢
  rw [chainPairs_getElem, chainPairs_getElem]

/-- each pair starts where the previous one ended, the first one at pose 0 (angle) -/
theorem consec_is_chain_angle (cang : List Rat) (δ : Rat) :
    (∀ k (h : k + 1 < (pairsByAngleConsec cang δ).length),
      (pairsByAngleConsec cang δ)[k + 1].1 = (pairsByAngleConsec cang δ)[k].2) ∧
    (∀ h : pairsByAngleConsec cang δ ≠ [], ((pairsByAngleConsec cang δ).head h).1 = 0) := by
  unfold pairsByAngleConsec
  refine ⟨?_, ?_⟩
  · intro k h
    rw [chainPairs_getElem, chainPairs_getElem]
  · intro h
    rw [chainPairs_head_fst]; rfl

/-- for a selected pair `(i, j)`: the path travelled since `i` reaches `δ` at `j` and at no earlier
pose; indices are in range -/
theorem consec_j_first_reaching_path (steps : List Rat) (δ : Rat) (i j : Nat)
    (h : (i, j) ∈ pairsByPathConsec steps δ) :
    i < j ∧ j < steps.length + 1 ∧ δ ≤ span steps i j ∧ ∀ m, i < m → m < j → span steps i m < δ := by
  obtain ⟨h1, h2, h3, h4⟩ := consec_reach steps δ (pathIds steps δ)
    (by rw [pathIds_eq]; split <;> simp) i j h
  exact ⟨h1, by omega, h3, h4⟩

/-- the same for the accumulated rotation -/
theorem consec_j_first_reaching_angle (cang : List Rat) (δ : Rat) (i j : Nat)
    (h : (i, j) ∈ pairsByAngleConsec cang δ) :
    i < j ∧ j < cang.length + 1 ∧ δ ≤ span cang i j ∧ ∀ m, i < m → m < j → span cang i m < δ := by
  obtain ⟨h1, h2, h3, h4⟩ := consec_reach cang δ (0 :: angleEnds cang δ) (Or.inl rfl) i j h
  exact ⟨h1, by omega, h3, h4⟩

/-- the path chain starts exactly at the first pose that reaches `δ` from the beginning
(hence "no later than" it) -/
theorem consec_start_not_later_than_first_reach_path (steps : List Rat) (δ : Rat) (hδ : 0 < δ)
    (h : pairsByPathConsec steps δ ≠ []) :
    δ ≤ span steps 0 ((pairsByPathConsec steps δ).head h).1 ∧
    ∀ m, m < ((pairsByPathConsec steps δ).head h).1 → span steps 0 m < δ := by
  unfold pairsByPathConsec at h ⊢
  rw [chainPairs_head_fst]
  have hne : pathIds steps δ ≠ [] := by intro hn; simp [hn, chainPairs] at h
  have hid : pathIds steps δ = reachGo δ steps 1 0 := by
    rw [pathIds_eq, if_neg (not_le.mpr hδ)]
  obtain ⟨hch, _, _⟩ := ends_spec steps δ
  simp only [hid] at hne ⊢
  obtain ⟨_, h2, h3⟩ := head_reach hch hne
  refine ⟨h2, ?_⟩
  intro m hm
  rcases Nat.eq_zero_or_pos m with rfl | hm0
  · rw [span_self]; exact hδ
  · exact h3 m hm0 hm

/-- the angle chain starts at pose 0, which is not later than any pose -/
theorem consec_start_not_later_than_first_reach_angle (cang : List Rat) (δ : Rat)
    (h : pairsByAngleConsec cang δ ≠ []) (m : Nat) :
    ((pairsByAngleConsec cang δ).head h).1 ≤ m := by
  rw [(consec_is_chain_angle cang δ).2 h]; exact Nat.zero_le m

/-- after the end of the last pair the rest of the trajectory no longer reaches `δ` (path) -/
theorem consec_maximal_path (steps : List Rat) (δ : Rat) (h : pairsByPathConsec steps δ ≠ []) (m : Nat)
    (hm : ((pairsByPathConsec steps δ).getLast h).2 < m) (hml : m < steps.length + 1) :
    span steps ((pairsByPathConsec steps δ).getLast h).2 m < δ := by
  unfold pairsByPathConsec at h hm ⊢
  rw [chainPairs_getLast_snd] at hm ⊢
  obtain ⟨_, _, h3⟩ := ids_spec steps δ (pathIds steps δ) (by rw [pathIds_eq]; split <;> simp)
  exact h3 _ m hm (by omega)

/-- after the end of the last pair the rest of the trajectory no longer reaches `δ` (angle) -/
theorem consec_maximal_angle (cang : List Rat) (δ : Rat) (h : pairsByAngleConsec cang δ ≠ []) (m : Nat)
    (hm : ((pairsByAngleConsec cang δ).getLast h).2 < m) (hml : m < cang.length + 1) :
    span cang ((pairsByAngleConsec cang δ).getLast h).2 m < δ := by
  unfold pairsByAngleConsec at h hm ⊢
  rw [chainPairs_getLast_snd] at hm ⊢
  obtain ⟨_, _, h3⟩ := ids_spec cang δ (0 :: angleEnds cang δ) (Or.inl rfl)
  exact h3 _ m hm (by omega)

/-- no angle pair at all ⇒ the accumulated rotation never reaches `δ` from pose 0 -/
theorem consec_empty_angle (cang : List Rat) (δ : Rat) (h : pairsByAngleConsec cang δ = [])
    (m : Nat) (hm : 0 < m) (hml : m < cang.length + 1) : span cang 0 m < δ := by
  have he : angleEnds cang δ = [] := by
    cases hr : angleEnds cang δ with
    | nil => rfl
    | cons e r => simp [pairsByAngleConsec, hr, chainPairs] at h
  obtain ⟨_, _, h3⟩ := ends_spec cang δ
  unfold angleEnds at he
  simp only [he, List.getLast_singleton] at h3
  exact h3 m hm (by omega)

/-- no path pair at all (`δ > 0`) ⇒ either no pose reaches `δ` from the beginning, or the first one
that does (`f`) is not followed by a pose reaching `δ` from `f` -/
theorem consec_empty_path (steps : List Rat) (δ : Rat) (hδ : 0 < δ) (h : pairsByPathConsec steps δ = []) :
    (∀ m, m < steps.length + 1 → span steps 0 m < δ) ∨
    ∃ f, f < steps.length + 1 ∧ δ ≤ span steps 0 f ∧ (∀ m, m < f → span steps 0 m < δ) ∧
      ∀ m, f < m → m < steps.length + 1 → span steps f m < δ := by
  have hid : pathIds steps δ = reachGo δ steps 1 0 := by
    rw [pathIds_eq, if_neg (not_le.mpr hδ)]
  obtain ⟨hch, hb, h3⟩ := ends_spec steps δ
  unfold pairsByPathConsec at h
  rw [hid] at h
  cases hr : reachGo δ steps 1 0 with
  | nil =>
    left
    intro m hml
    simp only [hr, List.getLast_singleton] at h3
    rcases Nat.eq_zero_or_pos m with rfl | hm0
    · rw [span_self]; exact hδ
    · exact h3 m hm0 (by omega)
  | cons e r =>
    cases r with
    | cons e' r' => simp [hr, chainPairs] at h
    | nil =>
      right
      rw [hr] at hch hb h3
      obtain ⟨_, h2, h4⟩ := (List.isChain_cons_cons.mp hch).1
      refine ⟨e, ?_, h2, ?_, ?_⟩
      · have := hb e (by simp); omega
      · intro m hm
        rcases Nat.eq_zero_or_pos m with rfl | hm0
        · rw [span_self]; exact hδ
        · exact h4 m hm0 hm
      · intro m hm hml
        have := h3 m (by simpa using hm) (by omega)
        simpa using this

/-- evo's two consecutive selectors differ only in the first segment: for `δ > 0` the path selector
returns the greedy chain started at pose 0 *without* its first pair `(0, first pose reaching δ)` -/
theorem pathConsec_eq_angleConsec_tail (l : List Rat) (δ : Rat) (hδ : 0 < δ) :
    pairsByPathConsec l δ = (pairsByAngleConsec l δ).tail := by
  unfold pairsByPathConsec pairsByAngleConsec angleEnds
  rw [pathIds_eq, if_neg (not_le.mpr hδ)]
  cases reachGo δ l 1 0 with
  | nil => simp [chainPairs]
  | cons e r => simp [chainPairs]

/-! ## delta in meters, all-pairs mode -/

/-- a selected pair lies within the tolerance: `|path(i..j) − δ| ≤ tol` -/
theorem pathAll_within_tol (acc : List Rat) (δ tol : Rat) (i j : Nat)
    (h : (i, j) ∈ pairsByPathAll acc δ tol) :
    ∃ (hi : i < acc.length) (hj : j < acc.length), i < j ∧ |acc[j] - acc[i] - δ| ≤ tol := by
  obtain ⟨hi, hj, hij, _, hle⟩ := pathAll_spec h
  exact ⟨hi, hj, hij, by rw [← absR_eq_abs]; exact hle⟩

/-- `j` is the closest pose for that `i` (the first one among equally close ones) -/
theorem pathAll_j_closest (acc : List Rat) (δ tol : Rat) (i j : Nat)
    (h : (i, j) ∈ pairsByPathAll acc δ tol) :
    ∃ (hi : i < acc.length) (hj : j < acc.length),
      (∀ k (hk : k < acc.length), i < k → |acc[j] - acc[i] - δ| ≤ |acc[k] - acc[i] - δ|) ∧
      (∀ k (hk : k < acc.length), i < k → k < j → |acc[j] - acc[i] - δ| < |acc[k] - acc[i] - δ|) := by
  obtain ⟨hi, hj, hij, hjc, _⟩ := pathAll_spec h
  obtain ⟨_, hmin, hfirst⟩ := pathCand_spec acc δ i (by omega)
  subst hjc
  refine ⟨hi, hj, ?_, ?_⟩
  · intro k hk hik; simp only [← absR_eq_abs]; exact hmin k hk hik
  · intro k hk hik hkj; simp only [← absR_eq_abs]; exact hfirst k hk hik hkj

/-- every `i` that has a pose within the tolerance is reported, and no `i` more than once
(start poses strictly increasing) -/
theorem pathAll_every_i_once (acc : List Rat) (δ tol : Rat) :
    ((pairsByPathAll acc δ tol).map Prod.fst).Pairwise (· < ·) ∧
    ∀ i, (∃ j, (i, j) ∈ pairsByPathAll acc δ tol) ↔
      ∃ k, ∃ (hk : k < acc.length) (hik : i < k), |acc[k] - acc[i] - δ| ≤ tol := by
  refine ⟨pathAll_fst_lt acc δ tol, ?_⟩
  intro i
  constructor
  · rintro ⟨j, hj⟩
    obtain ⟨hi, hjl, hij, hle⟩ := pathAll_within_tol acc δ tol i j hj
    exact ⟨j, hjl, hij, hle⟩
  · rintro ⟨k, hk, hik, hle⟩
    exact ⟨_, pathAll_complete hk hik (by rw [absR_eq_abs]; exact hle)⟩

/-! ## delta in radians / degrees, all-pairs mode -/

/-- exactly all pairs whose relative rotation angle lies in the band `[δ − tol, δ + tol]` -/
theorem angleAll_iff (ang : Nat → Nat → Rat) (n : Nat) (δ tol : Rat) (i j : Nat) :
    (i, j) ∈ pairsByAngleAll ang n δ tol ↔ i < j ∧ j < n ∧ δ - tol ≤ ang i j ∧ ang i j ≤ δ + tol :=
  mem_angleAll

/-! ## bounds for the remaining selectors -/

/-- the angle selectors receive `δ` and `tol = δ·rel_tol` converted from degrees when the unit is
degrees (`π/180` per degree), and refuse `δ` outside `[0, π]` resp. `[0, 180]` -/
theorem angle_dispatch (cang : List Rat) (ang : Nat → Nat → Rat) (n : Nat) (pi δ tol : Rat)
    (degrees allPairs : Bool) :
    pairsByAngle cang ang n pi δ tol degrees allPairs =
      if δ < 0 ∨ (if degrees then 180 else pi) < δ then .error .filter
      else .ok (if allPairs
        then pairsByAngleAll ang n (if degrees then δ * (pi / 180) else δ) (if degrees then tol * (pi / 180) else tol)
        else pairsByAngleConsec cang (if degrees then δ * (pi / 180) else δ)) := by
  unfold pairsByAngle deg2rad; rfl


theorem pairs_bounds_path (steps : List Rat) (δ tol : Rat) (allPairs : Bool) (i j : Nat)
    (h : (i, j) ∈ pairsByPath steps δ tol allPairs) : i < j ∧ j < steps.length + 1 := by
  cases allPairs with
  | true =>
    simp only [pairsByPath, if_true] at h
    obtain ⟨_, hj, hij, _⟩ := pathAll_within_tol _ δ tol i j h
    rw [accDist_length] at hj
    exact ⟨hij, hj⟩
  | false =>
    simp only [pairsByPath, Bool.false_eq_true, if_false] at h
    obtain ⟨h1, h2, _⟩ := consec_j_first_reaching_path steps δ i j h
    exact ⟨h1, h2⟩

theorem pairs_bounds_angle (cang : List Rat) (ang : Nat → Nat → Rat) (n : Nat) (pi δ tol : Rat)
    (degrees allPairs : Bool) (hn : cang.length + 1 = n) (ps : IdPairs)
    (hok : pairsByAngle cang ang n pi δ tol degrees allPairs = .ok ps) (i j : Nat) (h : (i, j) ∈ ps) :
    i < j ∧ j < n := by
  rw [angle_dispatch] at hok
  by_cases hc : δ < 0 ∨ (if degrees then 180 else pi) < δ
  · rw [if_pos hc] at hok; cases hok
  · rw [if_neg hc] at hok
    cases hok
    cases allPairs with
    | true =>
      simp only [if_true] at h
      obtain ⟨h1, h2, _⟩ := mem_angleAll.mp h
      exact ⟨h1, h2⟩
    | false =>
      simp only [Bool.false_eq_true, if_false] at h
      obtain ⟨h1, h2, _⟩ := consec_j_first_reaching_angle cang _ i j h
      exact ⟨h1, by omega⟩

/-! ## `id_pairs_from_delta` -/

/-- the pose list is consistent: `n` poses, `n − 1` steps and consecutive angles -/
def WF (inp : Input) : Prop := inp.steps.length + 1 = inp.n ∧ inp.cang.length + 1 = inp.n

/-- the selector that `id_pairs_from_delta` dispatches to -/
def selected (inp : Input) (δ : Rat) (u : DUnit) (relTol : Rat) (allPairs : Bool) : Except Err IdPairs :=
  match u with
  | .frames => .ok (pairsByIndex inp.n (toFrames δ) allPairs)
  | .meters => .ok (pairsByPath inp.steps δ (δ * relTol) allPairs)
  | .radians => pairsByAngle inp.cang inp.ang inp.n inp.pi δ (δ * relTol) false allPairs
  | .degrees => pairsByAngle inp.cang inp.ang inp.n inp.pi δ (δ * relTol) true allPairs
  | .other => .error .filter

/-- unit dispatch with the absolute tolerance `δ·rel_tol`; a result is returned iff the selector
returns a non-empty list, and it is that list; everything else is evo's filter error (empty
selection, angle outside `[0, π]` / `[0, 180]`, unsupported unit) -/
theorem empty_is_filter_error (inp : Input) (δ : Rat) (u : DUnit) (relTol : Rat) (allPairs : Bool) :
    (∀ ps, idPairsFromDelta inp δ u relTol allPairs = .ok ps ↔
        (selected inp δ u relTol allPairs = .ok ps ∧ ps ≠ [])) ∧
    (idPairsFromDelta inp δ u relTol allPairs = .error .filter ↔
        (selected inp δ u relTol allPairs = .ok [] ∨ selected inp δ u relTol allPairs = .error .filter)) := by
  have hsel : idPairsFromDelta inp δ u relTol allPairs =
      (match selected inp δ u relTol allPairs with
        | .error e => .error e
        | .ok ps => if ps.isEmpty then .error .filter else .ok ps) := by
    unfold idPairsFromDelta selected; cases u <;> rfl
  rw [hsel]
  cases hs : selected inp δ u relTol allPairs with
  | error e =>
    cases e
    simp
  | ok qs =>
    cases qs with
    | nil => simp
    | cons q r => simp

/-- through `id_pairs_from_delta` the angle pairs are exactly all pairs whose relative rotation
angle lies within `δ·(1 ± rel_tol)` (radians) -/
theorem angleAll_iff_rel (inp : Input) (δ relTol : Rat) (ps : IdPairs)
    (hok : idPairsFromDelta inp δ .radians relTol true = .ok ps) (i j : Nat) :
    (i, j) ∈ ps ↔ i < j ∧ j < inp.n ∧ δ * (1 - relTol) ≤ inp.ang i j ∧ inp.ang i j ≤ δ * (1 + relTol) := by
  obtain ⟨hsel, _⟩ := ((empty_is_filter_error inp δ .radians relTol true).1 ps).mp hok
  simp only [selected, angle_dispatch, Bool.false_eq_true, if_false, if_true] at hsel
  split at hsel
  · exact absurd hsel (by simp)
  · simp only [Except.ok.injEq] at hsel
    subst hsel
    rw [mem_angleAll]
    have e1 : δ - δ * relTol = δ * (1 - relTol) := by ring
    have e2 : δ + δ * relTol = δ * (1 + relTol) := by ring
    rw [e1, e2]

/-- through `id_pairs_from_delta` a path pair lies within `δ·rel_tol` of `δ` -/
theorem pathAll_within_rel_tol (inp : Input) (δ relTol : Rat) (ps : IdPairs)
    (hok : idPairsFromDelta inp δ .meters relTol true = .ok ps) (i j : Nat) (h : (i, j) ∈ ps) :
    |span inp.steps i j - δ| ≤ δ * relTol := by
  obtain ⟨hsel, _⟩ := ((empty_is_filter_error inp δ .meters relTol true).1 ps).mp hok
  simp only [selected, pairsByPath, if_true, Except.ok.injEq] at hsel
  subst hsel
  obtain ⟨hi, hj, _, hle⟩ := pathAll_within_tol _ _ _ i j h
  rw [accDist_diff_eq_span] at hle
  exact hle

/-- **every selected pair satisfies `0 ≤ i < j < N`** (`δ ≥ 1` for frames) -/
theorem pairs_bounds (inp : Input) (hwf : WF inp) (δ : Rat) (u : DUnit) (relTol : Rat) (allPairs : Bool)
    (hδ : u = .frames → 1 ≤ toFrames δ) (ps : IdPairs)
    (hok : idPairsFromDelta inp δ u relTol allPairs = .ok ps) (i j : Nat) (h : (i, j) ∈ ps) :
    i < j ∧ j < inp.n := by
  obtain ⟨hsel, _⟩ := ((empty_is_filter_error inp δ u relTol allPairs).1 ps).mp hok
  cases u with
  | frames =>
    simp only [selected, Except.ok.injEq] at hsel
    subst hsel
    obtain ⟨h1, h2, _⟩ := pairs_bounds_index inp.n _ allPairs (hδ rfl) i j h
    exact ⟨h1, h2⟩
  | meters =>
    simp only [selected, Except.ok.injEq] at hsel
    subst hsel
    have := pairs_bounds_path inp.steps δ _ allPairs i j h
    rw [hwf.1] at this; exact this
  | radians => exact pairs_bounds_angle _ _ _ _ _ _ _ _ hwf.2 ps hsel i j h
  | degrees => exact pairs_bounds_angle _ _ _ _ _ _ _ _ hwf.2 ps hsel i j h
  | other => simp [selected] at hsel

/-- the class route `metrics.RPE`: a selection is returned only for `δ ≥ 0` (frames: an integer `δ`),
and it is exactly what `id_pairs_from_delta` returns for the requested `δ`, unit, tolerance and mode;
a negative / non-integer-frames `δ` is the constructor's error, an empty selection the filter error -/
theorem rpe_route (inp : Input) (δ : Rat) (u : DUnit) (relTol : Rat) (allPairs : Bool) (ps : IdPairs) :
    rpePairs inp δ u relTol allPairs = .ok ps ↔
      (0 ≤ δ ∧ (u = .frames → (δ.floor : Rat) = δ) ∧
        idPairsFromDelta inp (if u = .frames then ((toFrames δ : Nat) : Rat) else δ) u relTol allPairs = .ok ps) := by
  unfold rpePairs
  by_cases h1 : δ < 0
  · simp [h1, not_le.mpr h1]
  · by_cases h2 : u = .frames ∧ (δ.floor : Rat) ≠ δ
    · rw [if_neg h1, if_pos h2]
      constructor
      · intro h; cases h
      · rintro ⟨_, hf, _⟩; exact absurd (hf h2.1) h2.2
    · rw [if_neg h1, if_neg h2]
      have h2' : u = .frames → (δ.floor : Rat) = δ := by
        intro hu; by_contra hne; exact h2 ⟨hu, hne⟩
      cases hsel : idPairsFromDelta inp (if u = .frames then ((toFrames δ : Nat) : Rat) else δ) u relTol allPairs with
      | error e => simp [not_lt.mp h1]
      | ok qs =>
        simp only [Except.ok.injEq, not_lt.mp h1, true_and]
        exact ⟨fun h => ⟨h2', h⟩, fun h => h.2⟩

/-! ## order / uniqueness of the all-pairs selections, degrees band -/

/-- the all-pairs path selection is sorted by start pose and has no duplicates -/
theorem pathAll_pairs_sorted_nodup (acc : List Rat) (δ tol : Rat) :
    (pairsByPathAll acc δ tol).Pairwise (fun p q => p.1 < q.1) ∧ (pairsByPathAll acc δ tol).Nodup := by
  have h := List.pairwise_map.mp (pathAll_fst_lt acc δ tol)
  refine ⟨h, h.imp ?_⟩
  intro p q hpq e; subst e; omega

/-- the all-pairs angle selection is in lexicographic order and has no duplicates: together with
`angleAll_iff` the returned *list* is determined -/
theorem angleAll_pairs_sorted_nodup (ang : Nat → Nat → Rat) (n : Nat) (δ tol : Rat) :
    (pairsByAngleAll ang n δ tol).Pairwise (fun p q => p.1 < q.1 ∨ (p.1 = q.1 ∧ p.2 < q.2)) ∧
    (pairsByAngleAll ang n δ tol).Nodup := by
  have h : (pairsByAngleAll ang n δ tol).Pairwise (fun p q => p.1 < q.1 ∨ (p.1 = q.1 ∧ p.2 < q.2)) := by
    unfold pairsByAngleAll
    rw [List.pairwise_flatMap]
    refine ⟨?_, ?_⟩
    · intro i _
      rw [List.pairwise_map]
      refine List.Pairwise.imp ?_ ((List.pairwise_lt_range).filter _)
      intro a b hab
      right; exact ⟨rfl, by omega⟩
    · refine List.Pairwise.imp ?_ (List.pairwise_lt_range)
      intro a b hab p hp q hq
      simp only [List.mem_map, List.mem_filter] at hp hq
      obtain ⟨_, _, rfl⟩ := hp
      obtain ⟨_, _, rfl⟩ := hq
      left; exact hab
  refine ⟨h, h.imp ?_⟩
  intro p q hpq e; subst e; omega

/-- the same for a delta in degrees: band `δ·(π/180)·(1 ± rel_tol)` on the angles in radians -/
theorem angleAll_iff_rel_degrees (inp : Input) (δ relTol : Rat) (ps : IdPairs)
    (hok : idPairsFromDelta inp δ .degrees relTol true = .ok ps) (i j : Nat) :
    (i, j) ∈ ps ↔ i < j ∧ j < inp.n ∧ δ * (inp.pi / 180) * (1 - relTol) ≤ inp.ang i j ∧
      inp.ang i j ≤ δ * (inp.pi / 180) * (1 + relTol) := by
  obtain ⟨hsel, _⟩ := ((empty_is_filter_error inp δ .degrees relTol true).1 ps).mp hok
  simp only [selected, angle_dispatch, if_true] at hsel
  by_cases hc : δ < 0 ∨ (180 : Rat) < δ
  · rw [if_pos hc] at hsel; cases hsel
  · rw [if_neg hc] at hsel
    cases hsel
    rw [mem_angleAll]
    have e1 : δ * (inp.pi / 180) - δ * relTol * (inp.pi / 180) = δ * (inp.pi / 180) * (1 - relTol) := by ring
    have e2 : δ * (inp.pi / 180) + δ * relTol * (inp.pi / 180) = δ * (inp.pi / 180) * (1 + relTol) := by ring
    rw [e1, e2]
/-! ## non-vacuity: the hypotheses are satisfiable and the selectors select something -/

/-- a 5-pose pose list: steps 1,1,3,1; consecutive rotations 1,1,2,1 (unit π/8); direct angles -/
def exInput : Input :=
  { n := 5, steps := [1, 1, 3, 1], cang := [1, 1, 2, 1],
    ang := fun i j => if j = i + 1 then (if i = 2 then 2 else 1) else ((j : Rat) - i), pi := 8 }

example : WF exInput := ⟨rfl, rfl⟩
example : pairsByIndex 7 2 false = [(0, 2), (2, 4), (4, 6)] := by decide +kernel
example : pairsByIndex 7 2 true = [(0, 2), (1, 3), (2, 4), (3, 5), (4, 6)] := by decide +kernel
example : accDist [1, 1, 3, 1] = [0, 1, 2, 5, 6] := by decide +kernel
-- δ hit exactly at pose 2 (path 2), then 3 ≥ 2 at pose 3; pose 4 no longer reaches δ from 3
example : pairsByPathConsec [1, 1, 3, 1] 2 = [(2, 3)] := by decide +kernel
example : pairsByPathConsec [1, 1, 3, 1] 7 = [] := by decide +kernel
example : pairsByPathAll (accDist [1, 1, 3, 1]) 2 (1/2) = [(0, 2)] := by decide +kernel
example : pairsByPathAll (accDist [1, 1, 3, 1]) 2 1 = [(0, 2), (1, 2), (2, 3), (3, 4)] := by decide +kernel
example : pairsByAngleConsec [1, 1, 2, 1] 2 = [(0, 2), (2, 3)] := by decide +kernel
example : pairsByAngleAll exInput.ang 5 2 (1/2) = [(0, 2), (1, 3), (2, 3), (2, 4)] := by decide +kernel
example : idPairsFromDelta exInput 2 .meters (1/4) true = .ok [(0, 2)] := by decide +kernel
example : idPairsFromDelta exInput 45 .degrees 0 false = .ok [(0, 2), (2, 3)] := by decide +kernel
example : idPairsFromDelta exInput 7 .meters (1/10) false = .error .filter := by decide +kernel
example : idPairsFromDelta exInput 9 .radians 0 false = .error .filter := by decide +kernel
example : idPairsFromDelta exInput 2 .frames (1/10) false = .ok [(0, 2), (2, 4)] := by decide +kernel
example : rpePairs exInput 2 .frames (1/10) false = .ok [(0, 2), (2, 4)] := by decide +kernel
example : rpePairs exInput (5/2) .frames (1/10) false = .error .metrics := by decide +kernel
example : rpePairs exInput (-1) .meters 0 true = .error .metrics := by decide +kernel
example : rpePairs exInput 2 .meters 0 true = .ok [(0, 2)] := by decide +kernel

end Evo.C10
