import EvoModel.Lemmas.Pairs
namespace Evo.C10
open Evo Evo.Pairs

theorem index_all_iff (n δ : Nat) (i j : Nat) :
    (i, j) ∈ pairsByIndex n δ true ↔ j = i + δ ∧ j < n := by
  simp only [pairsByIndex, if_true, List.mem_filterMap, List.mem_range]
  constructor
  · rintro ⟨a, ha, h⟩
    split at h
    · next hlt => simp only [Option.some.injEq, Prod.mk.injEq] at h; omega
    · exact absurd h (by simp)
  · rintro ⟨rfl, h⟩
    exact ⟨i, by omega, by simp [h]⟩

end Evo.C10
