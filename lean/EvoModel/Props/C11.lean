/-
C11 — sub-sampling, cropping, splitting and merging select exactly the specified poses.
Property theorems about `Evo.Select` (model of `downsample`, `motion_filter`/`filter_by_motion`,
`reduce_to_time_range`, `_jumps` + the three splitters, `merge`). Helper lemmas: `Lemmas/Select.lean`.

Rounding: `numpy.linspace(0, n-1, N, dtype=int)` rounds twice in binary64. The clauses that depend on
it (`linspace_in_envelope`, `linspace_strict_mono`, `linspace_even`, `downsample_count`, …) are proved
for EVERY rounding function `r` with `F64Rounding r` (relative error ≤ 2⁻⁵³ on [1/2, 2⁵³], exact on
naturals < 2⁵³); `rne_is_f64_rounding` shows that evo's rounding `Evo.F64.rne!` is one
(`Lemmas/SelectF64.lean`, from the `rne` specification lemmas of `Lemmas/F64.lean`), and the `…_evo`
theorems instantiate the clauses for `downsample = downsampleWith F64.rne!` without any hypothesis
about rounding, for trajectories of up to 2²⁵ poses.
-/
import EvoModel.Lemmas.Select
import EvoModel.Lemmas.SelectF64
import Mathlib.Tactic.NormNum
namespace Evo.C11
open Evo Evo.Select

/-! ### down-sampling -/

/-- the model of evo's `downsample` is the generic one at binary64 round-to-nearest-even -/
theorem downsample_is_f64 {α} (l : List α) (N : Nat) : downsample l N = downsampleWith F64.rne! l N := rfl

/-- "does nothing if the trajectory already has less or equal poses" -/
theorem downsample_noop_if_small {α} (r : Rat → Rat) (l : List α) (N : Nat) (h : l.length ≤ N) :
    downsampleWith r l N = .ok l := by
  simp [downsampleWith, downsampleIdsWith, h]

/-- fewer than one pose is refused (when there is something to drop) -/
theorem downsample_refuses_zero {α} (r : Rat → Rat) (l : List α) (h : 0 < l.length) :
    downsampleWith r l 0 = .error .traj := by
  have : ¬ l.length ≤ 0 := by omega
  simp [downsampleWith, downsampleIdsWith, this]

/-- `linspace` returns exactly `N` ids (any rounding) -/
theorem linspace_count (r : Rat → Rat) (n N : Nat) : (linspaceIdsWith r n N).length = N :=
  linspaceIdsWith_length r n N

/-- the last id is `n − 1` for `N ≥ 2` (any rounding: numpy sets it explicitly) -/
theorem linspace_last (r : Rat → Rat) (n N : Nat) (hN : 2 ≤ N) :
    (linspaceIdsWith r n N)[N - 1]? = some (n - 1) := linspaceIdsWith_last r n N hN

/-- the first id is `0` for evo's rounding (`0 · step = 0` and `rne 0 = 0`; unconditional) -/
theorem linspace_first (n N : Nat) (hN : 1 ≤ N) : (linspaceIds n N)[0]? = some 0 := by
  by_cases h1 : N = 1
  · subst h1; rfl
  · have hN2 : 2 ≤ N := by omega
    unfold linspaceIds
    rw [linspaceIdsWith_lt F64.rne! n N 0 hN2 (by omega)]
    have : ((0 : Nat) : Rat) * F64.rne! (((n - 1 : Nat) : Rat) / ((N - 1 : Nat) : Rat)) = 0 := by
      simp
    rw [this]
    rfl

/-- **the float rounding matters**: `n = 31, N = 23, k = 11`: numpy (and the model) keep pose 14,
the exact value `⌊11·30/22⌋` is 15 -/
theorem linspace_rounding_matters :
    (linspaceIds 31 23)[11]? = some 14 ∧ 11 * 30 / 22 = 15 := by decide +kernel

/-- **every id is the exact floor `⌊k(n−1)/(N−1)⌋`, or one below it where `k(n−1)/(N−1)` is an integer
although `(n−1)/(N−1)` is not** — from the rounding error bound -/
theorem linspace_in_envelope (r : Rat → Rat) (hr : F64Rounding r) (n N : Nat)
    (hN : 2 ≤ N) (hNn : N < n) (hsz : 3 * (n - 1) * (N - 1) < 2 ^ 53) (k i : Nat)
    (hk : (linspaceIdsWith r n N)[k]? = some i) : InEnvelope (n - 1) (N - 1) k i :=
  linspaceIdsWith_envelope r hr n N hN hNn hsz k i hk

/-- **pure integer arithmetic**: every list of `b + 1` ids in the envelope (`a = n−1`, `b = N−1`,
`1 ≤ b < a`) that ends with `a` starts at 0, is strictly increasing, has all gaps in
`{⌊a/b⌋, ⌈a/b⌉}` (exactly `a/b` when `b ∣ a`), deviates by at most 1 from `k·a/b`, and stays `≤ a` -/
theorem envelope_props (a b : Nat) (hb : 1 ≤ b) (hba : b < a) (ids : List Nat)
    (hlen : ids.length = b + 1)
    (henv : ∀ k i, ids[k]? = some i → InEnvelope a b k i)
    (hlast : ids[b]? = some a) :
    ids[0]? = some 0 ∧
    (∀ k i j, ids[k]? = some i → ids[k + 1]? = some j →
        i + a / b ≤ j ∧ j ≤ i + a / b + (if b ∣ a then 0 else 1)) ∧
    ids.Pairwise (· < ·) ∧
    (∀ k i, ids[k]? = some i → i * b ≤ k * a ∧ k * a ≤ (i + 1) * b) ∧
    (∀ i ∈ ids, i ≤ a) := by
  have hgap : ∀ k i j, ids[k]? = some i → ids[k + 1]? = some j →
      i + a / b ≤ j ∧ j ≤ i + a / b + (if b ∣ a then 0 else 1) := by
    intro k i j hi hj
    exact envelope_gap a b k i j (by omega) (henv k i hi) (henv (k + 1) j hj)
  have hdev : ∀ k i, ids[k]? = some i → i * b ≤ k * a ∧ k * a ≤ (i + 1) * b :=
    fun k i hi => envelope_dev a b k i (by omega) (henv k i hi)
  have hab1 : 1 ≤ a / b := (Nat.one_le_div_iff (by omega)).mpr (by omega)
  refine ⟨?_, hgap, ?_, hdev, ?_⟩
  · have h0 : 0 < ids.length := by omega
    have e : ids[0]? = some ids[0] := List.getElem?_eq_getElem h0
    rw [e, envelope_zero a b _ (henv 0 _ e)]
  · apply List.isChain_iff_pairwise.mp
    apply List.isChain_iff_getElem.mpr
    intro i hi
    have e1 : ids[i]? = some ids[i] := List.getElem?_eq_getElem (by omega)
    have e2 : ids[i + 1]? = some ids[i + 1] := List.getElem?_eq_getElem hi
    have := (hgap i _ _ e1 e2).1
    omega
  · intro i hi
    obtain ⟨k, hk, rfl⟩ := List.getElem_of_mem hi
    have e : ids[k]? = some ids[k] := List.getElem?_eq_getElem hk
    have h1 := (hdev k _ e).1
    have hkb : k ≤ b := by omega
    have h2 : k * a ≤ b * a := Nat.mul_le_mul_right a hkb
    have h3 : ids[k] * b ≤ a * b := by rw [Nat.mul_comm a b]; exact h1.trans h2
    exact Nat.le_of_mul_le_mul_right h3 (by omega)

/-- the hypotheses of `envelope_props` hold for the ids of `linspace` -/
theorem linspace_props (r : Rat → Rat) (hr : F64Rounding r) (n N : Nat)
    (hN : 2 ≤ N) (hNn : N < n) (hsz : 3 * (n - 1) * (N - 1) < 2 ^ 53) :
    let ids := linspaceIdsWith r n N
    ids[0]? = some 0 ∧
    (∀ k i j, ids[k]? = some i → ids[k + 1]? = some j →
        i + (n - 1) / (N - 1) ≤ j ∧ j ≤ i + (n - 1) / (N - 1) + (if (N - 1) ∣ (n - 1) then 0 else 1)) ∧
    ids.Pairwise (· < ·) ∧
    (∀ k i, ids[k]? = some i → i * (N - 1) ≤ k * (n - 1) ∧ k * (n - 1) ≤ (i + 1) * (N - 1)) ∧
    (∀ i ∈ ids, i ≤ n - 1) := by
  intro ids
  apply envelope_props (n - 1) (N - 1) (by omega) (by omega) ids
  · rw [linspaceIdsWith_length]; omega
  · exact fun k i hk => linspace_in_envelope r hr n N hN hNn hsz k i hk
  · exact linspaceIdsWith_last r n N hN

/-- **kept ids strictly increase** (so down-sampling preserves the order and never duplicates a pose) -/
theorem linspace_strict_mono (r : Rat → Rat) (hr : F64Rounding r) (n N : Nat)
    (hN : 1 ≤ N) (hNn : N < n) (hsz : 3 * (n - 1) * (N - 1) < 2 ^ 53) :
    (linspaceIdsWith r n N).Pairwise (· < ·) ∧ ∀ i ∈ linspaceIdsWith r n N, i < n := by
  by_cases h1 : N = 1
  · subst h1
    simp [linspaceIdsWith]; omega
  · have hp := linspace_props r hr n N (by omega) hNn hsz
    refine ⟨hp.2.2.1, fun i hi => ?_⟩
    have := hp.2.2.2.2 i hi
    omega

/-- **evenly spaced by index**: with `s = (n−1)/(N−1)`, every gap is `⌊s⌋` or `⌈s⌉` and
`|id_k − k·s| ≤ 1` (stated in integers, multiplied by `N − 1`) -/
theorem linspace_even (r : Rat → Rat) (hr : F64Rounding r) (n N : Nat)
    (hN : 2 ≤ N) (hNn : N < n) (hsz : 3 * (n - 1) * (N - 1) < 2 ^ 53) (k i : Nat)
    (hi : (linspaceIdsWith r n N)[k]? = some i) :
    (i * (N - 1) ≤ k * (n - 1) ∧ k * (n - 1) ≤ (i + 1) * (N - 1)) ∧
    ∀ j, (linspaceIdsWith r n N)[k + 1]? = some j →
      i + (n - 1) / (N - 1) ≤ j ∧ j ≤ i + (n - 1) / (N - 1) + (if (N - 1) ∣ (n - 1) then 0 else 1) := by
  have hp := linspace_props r hr n N hN hNn hsz
  exact ⟨hp.2.2.2.1 k i hi, fun j hj => hp.2.1 k i j hi hj⟩

/-- **down-sampling to N keeps exactly min(N, count) poses** -/
theorem downsample_count {α} (r : Rat → Rat) (hr : F64Rounding r) (l l' : List α) (N : Nat)
    (hsz : 3 * (l.length - 1) * (N - 1) < 2 ^ 53)
    (h : downsampleWith r l N = .ok l') : l'.length = min N l.length := by
  unfold downsampleWith downsampleIdsWith at h
  by_cases hs : l.length ≤ N
  · simp only [hs, if_true] at h
    injection h with h; subst h; omega
  · simp only [hs, if_false] at h
    by_cases h0 : N < 1
    · simp [h0] at h
    · simp only [h0, if_false] at h
      injection h with h; subst h
      have hm := linspace_strict_mono r hr l.length N (by omega) (by omega) hsz
      rw [reduceIds_length l _ hm.2, linspaceIdsWith_length]
      omega

/-- **always including the first pose and (for N ≥ 2) the last** -/
theorem downsample_keeps_first_last {α} (r : Rat → Rat) (hr : F64Rounding r) (l l' : List α) (N : Nat)
    (hN : 1 ≤ N) (hsz : 3 * (l.length - 1) * (N - 1) < 2 ^ 53)
    (h : downsampleWith r l N = .ok l') :
    l'[0]? = l[0]? ∧ (2 ≤ N → l'[l'.length - 1]? = l[l.length - 1]?) := by
  have hcount := downsample_count r hr l l' N hsz h
  unfold downsampleWith downsampleIdsWith at h
  by_cases hs : l.length ≤ N
  · simp only [hs, if_true] at h
    injection h with h; subst h; exact ⟨rfl, fun _ => rfl⟩
  · simp only [hs, if_false] at h
    have h0 : ¬ N < 1 := by omega
    simp only [h0, if_false] at h
    injection h with h
    have hm := linspace_strict_mono r hr l.length N hN (by omega) hsz
    have hget := reduceIds_getElem? l _ hm.2
    rw [← h]
    constructor
    · rw [hget 0]
      by_cases h1 : N = 1
      · subst h1; simp [linspaceIdsWith]
      · have := (linspace_props r hr l.length N (by omega) (by omega) hsz).1
        rw [this]; rfl
    · intro hN2
      rw [h, hcount, ← h, Nat.min_eq_left (by omega), hget (N - 1), linspaceIdsWith_last r _ N hN2]
      rfl

/-- **down-sampling preserves the relative order of the kept poses** (and keeps each pose as a
whole element of the input list) -/
theorem downsample_preserves_order {α} (r : Rat → Rat) (hr : F64Rounding r) (l l' : List α) (N : Nat)
    (hN : 1 ≤ N) (hsz : 3 * (l.length - 1) * (N - 1) < 2 ^ 53)
    (h : downsampleWith r l N = .ok l') : l'.Sublist l := by
  unfold downsampleWith downsampleIdsWith at h
  by_cases hs : l.length ≤ N
  · simp only [hs, if_true] at h
    injection h with h; subst h; exact List.Sublist.refl _
  · simp only [hs, if_false] at h
    have h0 : ¬ N < 1 := by omega
    simp only [h0, if_false] at h
    injection h with h; subst h
    exact reduceIds_sublist l _ (linspace_strict_mono r hr l.length N hN (by omega) hsz).1

/-! ### down-sampling as evo computes it (binary64), no rounding hypothesis left -/

/-- evo's rounding (`Evo.F64.rne!`, the executable binary64 round-to-nearest-even that the driver
runs and that is compared with numpy on every run) satisfies the rounding hypothesis -/
theorem rne_is_f64_rounding : F64Rounding F64.rne! := f64Rounding_rne

theorem size_ok (n N : Nat) (hNn : N ≤ n) (hn : n ≤ 2 ^ 25) : 3 * (n - 1) * (N - 1) < 2 ^ 53 := by
  have h1 : n - 1 < 2 ^ 25 := by omega
  have h2 : N - 1 < 2 ^ 25 := by omega
  have h3 : (n - 1) * (N - 1) ≤ (2 ^ 25 - 1) * (2 ^ 25 - 1) := Nat.mul_le_mul (by omega) (by omega)
  have : 3 * (n - 1) * (N - 1) = 3 * ((n - 1) * (N - 1)) := by ring
  rw [this]
  calc 3 * ((n - 1) * (N - 1)) ≤ 3 * ((2 ^ 25 - 1) * (2 ^ 25 - 1)) := Nat.mul_le_mul_left 3 h3
    _ < 2 ^ 53 := by norm_num

/-- **Down-sampling to N keeps exactly min(N, count) poses** (evo's float evaluation) -/
theorem downsample_count_evo {α} (l l' : List α) (N : Nat) (hn : l.length ≤ 2 ^ 25)
    (h : downsample l N = .ok l') : l'.length = min N l.length := by
  by_cases hs : l.length ≤ N
  · rw [downsample_is_f64, downsample_noop_if_small _ l N hs] at h
    injection h with h; subst h; omega
  · exact downsample_count F64.rne! rne_is_f64_rounding l l' N (size_ok _ _ (by omega) hn) h

/-- **… always including the first pose and (for N ≥ 2) the last** (evo's float evaluation) -/
theorem downsample_keeps_first_last_evo {α} (l l' : List α) (N : Nat) (hN : 1 ≤ N) (hn : l.length ≤ 2 ^ 25)
    (h : downsample l N = .ok l') :
    l'[0]? = l[0]? ∧ (2 ≤ N → l'[l'.length - 1]? = l[l.length - 1]?) := by
  by_cases hs : l.length ≤ N
  · rw [downsample_is_f64, downsample_noop_if_small _ l N hs] at h
    injection h with h; subst h; exact ⟨rfl, fun _ => rfl⟩
  · exact downsample_keeps_first_last F64.rne! rne_is_f64_rounding l l' N hN
      (size_ok _ _ (by omega) hn) h

/-- **… evenly spaced by index** (evo's float evaluation): ids strictly increase, every gap is
`⌊s⌋` or `⌈s⌉`, `|id_k − k·s| ≤ 1` for `s = (n−1)/(N−1)` -/
theorem linspace_even_evo (n N : Nat) (hN : 2 ≤ N) (hNn : N < n) (hn : n ≤ 2 ^ 25) :
    (linspaceIds n N).Pairwise (· < ·) ∧
    ∀ k i, (linspaceIds n N)[k]? = some i →
      (i * (N - 1) ≤ k * (n - 1) ∧ k * (n - 1) ≤ (i + 1) * (N - 1)) ∧
      ∀ j, (linspaceIds n N)[k + 1]? = some j →
        i + (n - 1) / (N - 1) ≤ j ∧ j ≤ i + (n - 1) / (N - 1) + (if (N - 1) ∣ (n - 1) then 0 else 1) := by
  have hsz := size_ok n N (by omega) hn
  exact ⟨(linspace_strict_mono F64.rne! rne_is_f64_rounding n N (by omega) hNn hsz).1,
    fun k i hi => linspace_even F64.rne! rne_is_f64_rounding n N hN hNn hsz k i hi⟩

/-- **… preserving the relative order of the kept poses** (evo's float evaluation) -/
theorem downsample_preserves_order_evo {α} (l l' : List α) (N : Nat) (hN : 1 ≤ N) (hn : l.length ≤ 2 ^ 25)
    (h : downsample l N = .ok l') : l'.Sublist l := by
  by_cases hs : l.length ≤ N
  · rw [downsample_is_f64, downsample_noop_if_small _ l N hs] at h
    injection h with h; subst h; exact List.Sublist.refl _
  · exact downsample_preserves_order F64.rne! rne_is_f64_rounding l l' N hN (size_ok _ _ (by omega) hn) h

/-! ### motion filter -/

/-- fewer than two poses, or a negative threshold, are refused (`FilterException`) -/
theorem motion_refuses (acc : List Rat) (ang : Nat → Nat → Rat) (d a : Rat) :
    motionFilterAcc acc ang d a = .error .filter ↔ (acc.length < 2 ∨ d < 0 ∨ a < 0) := by
  unfold motionFilterAcc
  by_cases h1 : acc.length < 2
  · simp [h1]
  · by_cases h2 : d < 0
    · simp [h1, h2]
    · by_cases h3 : a < 0
      · simp [h1, h2, h3]
      · simp [h1, h2, h3]

theorem motion_ok (acc : List Rat) (ang : Nat → Nat → Rat) (d a : Rat) (ids : List Nat)
    (h : motionFilterAcc acc ang d a = .ok ids) :
    ids = 0 :: motionGo ang d a acc.tail 1 0 0 ∧ 2 ≤ acc.length := by
  unfold motionFilterAcc at h
  split_ifs at h with h1
  injection h with h
  exact ⟨h.symm, by omega⟩

/-- **motion filtering always keeps the first pose** -/
theorem motion_keeps_first (acc : List Rat) (ang : Nat → Nat → Rat) (d a : Rat) (ids : List Nat)
    (h : motionFilterAcc acc ang d a = .ok ids) : ids.head? = some 0 := by
  rw [(motion_ok acc ang d a ids h).1]; rfl

/-- kept ids are strictly increasing and valid -/
theorem motion_ids_increasing (acc : List Rat) (ang : Nat → Nat → Rat) (d a : Rat) (ids : List Nat)
    (h : motionFilterAcc acc ang d a = .ok ids) :
    ids.Pairwise (· < ·) ∧ ∀ i ∈ ids, i < acc.length := by
  obtain ⟨rfl, hlen⟩ := motion_ok acc ang d a ids h
  have hge := motionGo_ge ang d a acc.tail 1 0 0
  have htl : acc.tail.length = acc.length - 1 := by simp
  refine ⟨List.pairwise_cons.mpr ⟨fun c hc => ?_, motionGo_pairwise _ _ _ _ _ _ _⟩, fun i hi => ?_⟩
  · have := hge c hc; omega
  · rcases List.mem_cons.mp hi with rfl | hi
    · omega
    · have := hge i hi; omega

/-- **a later pose is kept exactly if, since the last kept pose `p`, the travelled path length
`acc[i] − acc[p]` reached the distance threshold or the rotation angle `ang p i` reached the angle
threshold** (`acc` = accumulated distances, starting at 0) -/
theorem motion_keep_iff (acc : List Rat) (ang : Nat → Nat → Rat) (d a : Rat) (ids : List Nat)
    (h : motionFilterAcc acc ang d a = .ok ids) (h0 : acc[0]? = some 0)
    (i p : Nat) (hi0 : 0 < i) (hi : i < acc.length) (hp : IsLastKeptBefore ids p i) :
    i ∈ ids ↔ (d ≤ acc.getD i 0 - acc.getD p 0 ∨ a ≤ ang p i) := by
  obtain ⟨rfl, hlen⟩ := motion_ok acc ang d a ids h
  have htl : acc.tail.length = acc.length - 1 := by simp
  have hval : ∀ k, ∀ (hk : k < acc.tail.length), acc.tail[k] = (fun j => acc.getD j 0) (1 + k) := by
    intro k hk
    have hk' : 1 + k < acc.length := by omega
    simp only [List.getD_eq_getElem?_getD, List.getElem?_eq_getElem hk', Option.getD_some]
    rw [List.getElem_tail]
    congr 1; omega
  have hpd : (0 : Rat) = (fun j => acc.getD j 0) 0 := by
    simp [List.getD_eq_getElem?_getD, h0]
  have := motionGo_spec ang d a (fun j => acc.getD j 0) acc.tail 1 0 0 hval hpd (by omega) i p
    (by omega) (by omega) hp
  rw [List.mem_cons]
  constructor
  · rintro (h | h)
    · omega
    · exact this.mp h
  · intro h; exact Or.inr (this.mpr h)

/-- the accumulated distances evo computes start at 0, so `motion_keep_iff` applies to
`motionFilter` (= `filter_by_motion` from the step lengths) -/
theorem motion_keep_iff_lens (lens : List Rat) (ang : Nat → Nat → Rat) (d a : Rat) (ids : List Nat)
    (h : motionFilter lens ang d a = .ok ids)
    (i p : Nat) (hi0 : 0 < i) (hi : i ≤ lens.length) (hp : IsLastKeptBefore ids p i) :
    i ∈ ids ↔ (d ≤ (accDist lens).getD i 0 - (accDist lens).getD p 0 ∨ a ≤ ang p i) := by
  unfold motionFilter at h
  have h0 : (accDist lens)[0]? = some 0 := by
    unfold accDist; cases lens <;> simp [accFrom]
  exact motion_keep_iff (accDist lens) ang d a ids h h0 i p hi0
    (by unfold accDist; rw [accFrom_length]; omega) hp

/-- F18: over the rationals the loop that subtracts accumulated path lengths (before the repair) and the loop that
accumulates the path since the last kept pose (after it) select the same poses (`(accFrom s steps).tail` = the
accumulated lengths of the poses after the one at path length `s`) -/
theorem motionGo_acc_eq_steps (ang : Nat → Nat → Rat) (d a : Rat) (steps : List Rat) (s pd : Rat) (i pid : Nat) :
    motionGo ang d a (accFrom s steps).tail i pid pd = motionGoSteps ang d a steps i pid (s - pd) := by
  induction steps generalizing s pd i pid with
  | nil => simp [accFrom, motionGo, motionGoSteps]
  | cons l r ih =>
    have htl : (accFrom s (l :: r)).tail = (s + l) :: (accFrom (s + l) r).tail := by
      cases r <;> simp [accFrom]
    have e1 : s + l - pd = s - pd + l := by ring
    have e2 : s + l - (s + l) = 0 := by ring
    rw [htl]
    unfold motionGo motionGoSteps
    rw [ih (s + l) (s + l) (i + 1) i, ih (s + l) pd (i + 1) pid, e1, e2]

/-- F18: in exact arithmetic, the motion filter that takes differences of the accumulated path length (what
`filter_by_motion` did before the repair) and the one that accumulates the path since the last kept pose (what it does
now) are the same function - the defect was float64 rounding of the accumulated length only. -/
theorem motionFilter_steps_formulation_agrees (lens : List Rat) (ang : Nat → Nat → Rat) (d a : Rat) :
    motionFilterSteps lens ang d a = motionFilter lens ang d a := by
  unfold motionFilterSteps motionFilter motionFilterAcc accDist
  rw [accFrom_length, motionGo_acc_eq_steps, sub_self]

/-- `motion_keep_iff_lens` for the formulation the code has since F18 -/
theorem motion_keep_iff_lens_steps (lens : List Rat) (ang : Nat → Nat → Rat) (d a : Rat) (ids : List Nat)
    (h : motionFilterSteps lens ang d a = .ok ids)
    (i p : Nat) (hi0 : 0 < i) (hi : i ≤ lens.length) (hp : IsLastKeptBefore ids p i) :
    i ∈ ids ↔ (d ≤ (accDist lens).getD i 0 - (accDist lens).getD p 0 ∨ a ≤ ang p i) := by
  rw [motionFilter_steps_formulation_agrees] at h
  exact motion_keep_iff_lens lens ang d a ids h i p hi0 hi hp

/-! ### time cropping -/

/-- **time cropping keeps exactly the poses with start ≤ t ≤ end** (`None` = first / last stamp) -/
theorem crop_iff (ts : List Rat) (s e : Option Rat) (ids : List Nat) (h : cropIds ts s e = .ok ids) :
    ∃ t0, ts.head? = some t0 ∧ ∀ i, i ∈ ids ↔
      ∃ (hi : i < ts.length), s.getD t0 ≤ ts[i] ∧ ts[i] ≤ e.getD (ts.getLastD t0) := by
  obtain ⟨t0, ht0, rfl, _⟩ := cropIds_spec ts s e ids h
  refine ⟨t0, ht0, fun i => ?_⟩
  rw [mem_idsWhere]
  constructor
  · rintro ⟨j, hj, rfl, hp⟩
    simp only [Nat.zero_add]
    simp only [Bool.and_eq_true, decide_eq_true_eq] at hp
    exact ⟨hj, hp⟩
  · rintro ⟨hi, hp⟩
    exact ⟨i, hi, by omega, by simpa using hp⟩

/-- refusal exactly for an empty trajectory or start > end -/
theorem crop_refuses_iff (ts : List Rat) (s e : Option Rat) :
    cropIds ts s e = .error .traj ↔
      ts = [] ∨ ∃ t0, ts.head? = some t0 ∧ e.getD (ts.getLastD t0) < s.getD t0 := by
  unfold cropIds
  cases ts with
  | nil => simp
  | cons t0 r =>
    simp only [List.head?_cons, Option.some.injEq, exists_eq_left', reduceCtorEq, false_or]
    split_ifs with hlt
    · simpa using hlt
    · simpa using hlt

theorem crop_ids_increasing (ts : List Rat) (s e : Option Rat) (ids : List Nat)
    (h : cropIds ts s e = .ok ids) : ids.Pairwise (· < ·) := by
  obtain ⟨t0, _, rfl, _⟩ := cropIds_spec ts s e ids h
  exact idsWhere_pairwise _ _ _

/-- cropping a trajectory preserves order and keeps stamp and pose together -/
theorem crop_preserves_order {α} (tr out : List (Rat × α)) (s e : Option Rat)
    (h : crop tr s e = .ok out) : out.Sublist tr := by
  unfold crop at h
  split at h
  · cases h
  · rename_i ids hids
    injection h with h; subst h
    exact reduceIds_sublist tr ids (crop_ids_increasing _ s e ids hids)

/-! ### splitting -/

/-- **concatenating the parts reproduces the trajectory** (`steps` has one entry per pair of
consecutive poses) -/
theorem split_concat {α} (l : List α) (thr : Rat) (steps : List Rat)
    (hlen : steps.length = l.length - 1) :
    (slices l (cutsOf thr steps l.length)).flatten = l := by
  have hpw : (cutsOf thr steps l.length).Pairwise (· ≤ ·) := by
    by_cases h0 : l.length = 0
    · have hs : steps = [] := List.length_eq_zero_iff.mp (by omega)
      rw [hs, h0]
      simp [cutsOf, idsWhere]
    · exact (cutsOf_pairwise thr steps l.length (by omega)).imp (fun h => Nat.le_of_lt h)
  have := slices_flatten l 0 _ (by unfold cutsOf at hpw; exact hpw)
  unfold cutsOf
  rw [this]
  have hl := cutsOf_getLast thr steps l.length
  unfold cutsOf at hl
  rw [hl, slice_zero_length]

/-- **every cut is at a step exceeding the threshold**: `c` is an interior cut iff the step from
pose `c − 1` to pose `c` exceeds the threshold -/
theorem split_cut_exceeds (thr : Rat) (steps : List Rat) (n : Nat) (hn : steps.length < n) (c : Nat) :
    (c ∈ cutsOf thr steps n ∧ c ≠ 0 ∧ c ≠ n) ↔
      ∃ k, ∃ (h : k < steps.length), c = k + 1 ∧ c ≠ n ∧ thr < steps[k] := by
  unfold cutsOf
  simp only [List.mem_cons, List.mem_append, List.not_mem_nil, or_false]
  constructor
  · rintro ⟨h | h | h, h0, hn'⟩
    · exact absurd h h0
    · obtain ⟨k, hk, rfl, hp⟩ := (mem_cutsOf_interior thr steps c).mp h
      exact ⟨k, hk, rfl, hn', hp⟩
    · exact absurd h hn'
  · rintro ⟨k, hk, rfl, hn', hp⟩
    exact ⟨Or.inr (Or.inl ((mem_cutsOf_interior thr steps _).mpr ⟨k, hk, rfl, hp⟩)), by omega, hn'⟩

/-- **no step exceeding the threshold remains inside a part**: between two consecutive cuts
`a < b` every step `k → k+1` with `a ≤ k`, `k + 1 < b` is `≤ thr` -/
theorem split_no_big_step_inside (thr : Rat) (steps : List Rat) (n : Nat) (hn : steps.length < n)
    (a b : Nat) (hab : (a, b) ∈ List.zip (cutsOf thr steps n) (cutsOf thr steps n).tail)
    (k : Nat) (hk : k < steps.length) (hak : a ≤ k) (hkb : k + 1 < b) : steps[k] ≤ thr := by
  by_contra hgt
  have hgt' : thr < steps[k] := not_le.mp hgt
  have hmem : k + 1 ∈ cutsOf thr steps n := by
    unfold cutsOf
    exact List.mem_cons_of_mem _ (List.mem_append_left _
      ((mem_cutsOf_interior thr steps _).mpr ⟨k, hk, rfl, hgt'⟩))
  exact no_mem_between_consecutive _ (cutsOf_pairwise thr steps n hn) a b hab (k + 1) hmem
    ⟨by omega, hkb⟩

/-- the distance splitter thresholds the step lengths themselves (differences of the accumulated
distances) -/
theorem splitDist_steps_are_lengths (lens : List Rat) : adjDiffs (accDist lens) = lens :=
  adjDiffs_accFrom 0 lens

/-- the three splitters partition their trajectory -/
theorem splitTime_concat {α} (tr : List (Rat × α)) (dt : Rat) :
    (slices tr (splitTimeCuts (tr.map Prod.fst) dt)).flatten = tr := by
  unfold splitTimeCuts
  have := split_concat tr dt (adjDiffs (tr.map Prod.fst)) (by rw [adjDiffs_length]; simp)
  simpa using this

theorem splitDist_concat {α} (l : List α) (lens : List Rat) (thr : Rat) (h : l.length = lens.length + 1) :
    (slices l (splitDistCuts lens thr)).flatten = l := by
  unfold splitDistCuts
  rw [← h]
  exact split_concat l thr lens (by omega)

/-- F17: in exact arithmetic, thresholding the differences of the accumulated path length (what `_jumps` did before
the repair) and thresholding the step lengths (what it does now) are the same function - the defect was float64
rounding of the accumulated length only, and the repair changes nothing else. -/
theorem splitDist_acc_formulation_agrees (lens : List Rat) (thr : Rat) :
    splitDistCutsAcc lens thr = splitDistCuts lens thr := by
  unfold splitDistCutsAcc splitDistCuts
  rw [splitDist_steps_are_lengths]

theorem splitSpeed_concat {α} (tr : List (Rat × α)) (lens : List Rat) (vmax : Rat) (cuts : List Nat)
    (hl : lens.length = tr.length - 1)
    (h : splitSpeedCuts lens (tr.map Prod.fst) vmax = .ok cuts) :
    (slices tr cuts).flatten = tr := by
  unfold splitSpeedCuts at h
  simp only [List.length_map] at h
  split_ifs at h with hlt
  · injection h with h; subst h
    simp only [slices, slice, List.flatten_cons, List.flatten_nil, List.append_nil]
    simp
  · split at h
    · cases h
    · rename_i v hv
      injection h with h; subst h
      have hvlen : v.length = tr.length - 1 := by
        have key : ∀ (ls ds : List Rat) (v : List Rat), speedsGo ls ds = .ok v →
            v.length = min ls.length ds.length := by
          intro ls
          induction ls with
          | nil => intro ds v h; simp [speedsGo] at h; subst h; simp
          | cons x xs ih =>
            intro ds v h
            cases ds with
            | nil => simp [speedsGo] at h; subst h; simp
            | cons y ys =>
              simp only [speedsGo] at h
              split_ifs at h
              split at h
              · cases h
              · rename_i r hr
                injection h with h; subst h
                simp [ih ys r hr]
        unfold speeds at hv
        rw [key _ _ _ hv, adjDiffs_length]
        simp [hl]
      exact split_concat tr vmax v hvlen

/-! ### merging -/

/-- the order applied by `merge` is a permutation of all concatenated indices -/
theorem merge_order_perm (s : List Rat) : (argsortStable s).Perm (List.range s.length) :=
  argsortStable_perm s

/-- **merging yields the time-sorted …** -/
theorem merge_sorted {P Q} (ts : List (Traj P Q)) : (mergeTraj ts).stamps.Pairwise (· ≤ ·) :=
  argsort_sorted _

/-- **… in which every pose keeps its own timestamp**: the merged (stamp, position, orientation)
triples are the concatenated triples selected by one and the same index list -/
theorem merge_keeps_triples {P Q} (ts : List (Traj P Q))
    (h1 : (concatTraj ts).stamps.length = (concatTraj ts).xyz.length)
    (h2 : (concatTraj ts).xyz.length = (concatTraj ts).quat.length) :
    List.zip (mergeTraj ts).stamps (List.zip (mergeTraj ts).xyz (mergeTraj ts).quat)
      = reduceIds (List.zip (concatTraj ts).stamps (List.zip (concatTraj ts).xyz (concatTraj ts).quat))
          (argsortStable (concatTraj ts).stamps) := by
  unfold mergeTraj
  simp only
  rw [reduceIds_zip3 _ _ _ _ h1 h2]

/-- **… union**: the merged triples are a permutation of all input triples -/
theorem merge_perm {P Q} (ts : List (Traj P Q))
    (h1 : (concatTraj ts).stamps.length = (concatTraj ts).xyz.length)
    (h2 : (concatTraj ts).xyz.length = (concatTraj ts).quat.length) :
    (List.zip (mergeTraj ts).stamps (List.zip (mergeTraj ts).xyz (mergeTraj ts).quat)).Perm
      (List.zip (concatTraj ts).stamps (List.zip (concatTraj ts).xyz (concatTraj ts).quat)) := by
  rw [merge_keeps_triples ts h1 h2]
  set z := List.zip (concatTraj ts).stamps (List.zip (concatTraj ts).xyz (concatTraj ts).quat) with hz
  have hlen : z.length = (concatTraj ts).stamps.length := by
    rw [hz]; simp only [List.length_zip]; omega
  have hp := (argsortStable_perm (concatTraj ts).stamps).filterMap (fun i => z[i]?)
  rw [← hlen, filterMap_range_getElem?] at hp
  exact hp

/-! ### all selections -/

/-- **all of these preserve the relative order of the kept poses**: a selection by strictly
increasing ids is a sublist of the input -/
theorem selection_preserves_order {α} (l : List α) (ids : List Nat) (h : ids.Pairwise (· < ·)) :
    (reduceIds l ids).Sublist l := reduceIds_sublist l ids h

/-- **… and keep pose, orientation and timestamp of each kept pose together**: applying the ids to
the three parallel arrays (as `reduce_to_ids` does) is the same as selecting whole triples -/
theorem selection_keeps_pose_quat_stamp_together {α β γ} (xyz : List α) (quat : List β) (stamps : List γ)
    (ids : List Nat) (h1 : xyz.length = quat.length) (h2 : quat.length = stamps.length) :
    List.zip (reduceIds xyz ids) (List.zip (reduceIds quat ids) (reduceIds stamps ids))
      = reduceIds (List.zip xyz (List.zip quat stamps)) ids :=
  (reduceIds_zip3 xyz quat stamps ids h1 h2).symm

/-! ### non-vacuity: the hypotheses above are met by concrete non-trivial instances -/

/-- the rounding hypothesis is satisfiable (exact arithmetic satisfies it) -/
example : F64Rounding id := ⟨fun x hx _ => by simp only [id, sub_self, abs_zero]; positivity, fun _ _ => rfl⟩

example : linspaceIds 10 4 = [0, 3, 6, 9] := by decide +kernel
example : linspaceIds 31 23 =
    [0, 1, 2, 4, 5, 6, 8, 9, 10, 12, 13, 14, 16, 17, 19, 20, 21, 23, 24, 25, 27, 28, 30] := by decide +kernel
example : InEnvelope 30 22 11 14 := Or.inr ⟨by decide, by decide, by decide⟩
example : (3 : Nat) * (5000 - 1) * (5000 - 1) < 2 ^ 53 := by decide
example : downsample [10, 11, 12, 13, 14, 15, 16] 3 = .ok [10, 13, 16] := by decide +kernel
example : motionFilter [5, 5, 5, 0, 5] (fun _ _ => 0) 10 1 = .ok [0, 2, 5] := by decide +kernel
example : motionFilter [1, 1, 1] (fun j i => if j = 0 ∧ i = 2 then 2 else 0) 10 2 = .ok [0, 2] := by
  decide +kernel
example : motionFilterSteps [3, 4, 5] (fun _ _ => 0) 7 1 = .ok [0, 2] := by decide +kernel
example : motionFilterSteps [5, 5, 5, 0, 5] (fun _ _ => 0) 10 1 = .ok [0, 2, 5] := by decide +kernel
example : IsLastKeptBefore [0, 2, 5] 2 4 := ⟨by decide, by decide, by decide⟩
example : cropIds [0, 1, 2, 3, 4] (some 1) (some 3) = .ok [1, 2, 3] := by decide +kernel
example : cropIds [0, 1, 2, 3, 4] none (some 2) = .ok [0, 1, 2] := by decide +kernel
example : cropIds [0, 1, 2] (some 2) (some 1) = .error .traj := by decide +kernel
example : splitTimeCuts [0, 1, 3, 4, 9] 1 = [0, 2, 4, 5] := by decide +kernel
example : slices [10, 11, 12, 13, 14] (splitTimeCuts [0, 1, 3, 4, 9] 1) = [[10, 11], [12, 13], [14]] := by
  decide +kernel
example : splitDistCuts [5, 10, 5] 5 = [0, 2, 4] := by decide +kernel
example : splitSpeedCuts [5, 10] [0, 1, 2] 7 = .ok [0, 2, 3] := by decide +kernel
example : (mergeTraj [(⟨[0, 2, 4], [10, 11, 12], [20, 21, 22]⟩ : Traj Nat Nat), ⟨[1, 2, 3], [13, 14, 15], [23, 24, 25]⟩]).xyz
    = [10, 13, 11, 14, 15, 12] := by
  norm_num [mergeTraj, concatTraj, argsortStable, reduceIds, List.mergeSort,
    List.MergeSort.Internal.splitInTwo, List.merge, List.zipIdx]
  decide

end Evo.C11
