/-
C11 — sub-sampling, cropping, splitting, merging select exactly the specified poses.
-/
import EvoModel.Model.Select
namespace Evo.C11
open Evo Evo.Select

theorem downsample_noop_if_small {α} (l : List α) (N : Nat) (h : l.length ≤ N) :
    downsample l N = .ok l := by
  simp [downsample, downsampleIds, h]

end Evo.C11
