import EvoModel.Model.Stats
namespace Evo.C12
open Evo Evo.Stats
theorem placeholder : sse [] = 0 := rfl
end Evo.C12
