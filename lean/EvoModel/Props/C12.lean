/-
C12 — a metric result is self-consistent: statistics, companion arrays, unit.
Property theorems about `Evo.Stats` (model of `evo/core/metrics.py` statistics / `change_unit` /
`get_result`, and of the result bookkeeping of `main_ape.ape`, `main_rpe.rpe`) and about the
regenerated tables `Gen/Units.lean`. Helper lemmas: `Lemmas/Stats.lean`.

`rmse` and `std` are irrational in general: the theorems speak about their squares
(`meanSq = rmse²`, `var = std²`) and about *any* non-negative `r` with `r * r = meanSq`.
-/
import EvoModel.Lemmas.Stats
import EvoModel.Lemmas.StatsReal
namespace Evo.C12
open Evo Evo.Stats Evo.Gen.Units

/-! ## statistics -/

/-- **sse = sum(e²), rmse² = mean(e²)**: `sse = n · rmse²` -/
theorem sse_eq_n_mul_meanSq (l : List Rat) (h : l ≠ []) : sse l = (l.length : Rat) * meanSq l := by
  have hn := length_pos_cast h
  unfold meanSq
  field_simp

/-- **rmse² = mean² + std²** -/
theorem rmse_sq_eq_mean_sq_add_var (l : List Rat) (h : l ≠ []) :
    meanSq l = mean l * mean l + var l := by
  have hn := length_pos_cast h
  have hne : (l.length : Rat) ≠ 0 := ne_of_gt hn
  have hdev := sum_sq_dev (mean l) l
  simp only [var, meanSq, sse, List.length_map] at hdev ⊢
  rw [hdev]
  unfold mean
  field_simp
  ring

/-- `mean² ≤ rmse²` -/
theorem mean_sq_le_meanSq (l : List Rat) (h : l ≠ []) : mean l * mean l ≤ meanSq l := by
  have := rmse_sq_eq_mean_sq_add_var l h
  have := var_nonneg l
  linarith

/-- **mean ≤ rmse** for the non-negative root `r` of `rmse²` -/
theorem mean_le_rmse (l : List Rat) (h : l ≠ []) (r : Rat) (hr : 0 ≤ r) (hrr : r * r = meanSq l) :
    mean l ≤ r := by
  have h1 := mean_sq_le_meanSq l h
  by_contra hc
  have hc : r < mean l := not_le.mp hc
  have : r * r < mean l * mean l := by nlinarith
  linarith

/-- **min ≤ mean** -/
theorem min_le_mean (l : List Rat) (h : l ≠ []) : minL l ≤ mean l := by
  have hn := length_pos_cast h
  have := sum_ge_of_forall_ge (minL l) l (fun x hx => minL_le hx)
  unfold mean
  rw [le_div_iff₀ hn]
  exact this

/-- mean ≤ max -/
theorem mean_le_max (l : List Rat) (h : l ≠ []) : mean l ≤ maxL l := by
  have hn := length_pos_cast h
  have := sum_le_of_forall_le (maxL l) l (fun x hx => le_maxL hx)
  unfold mean
  rw [div_le_iff₀ hn]
  exact this

/-- `rmse² ≤ max²` for error values ≥ 0 -/
theorem meanSq_le_max_sq (l : List Rat) (h : l ≠ []) (hpos : ∀ x ∈ l, 0 ≤ x) :
    meanSq l ≤ maxL l * maxL l := by
  have hn := length_pos_cast h
  have hb : sse l ≤ (maxL l * maxL l) * (l.length : Rat) := by
    have := sum_le_of_forall_le (maxL l * maxL l) (l.map fun x => x * x) (by
      intro y hy
      obtain ⟨x, hx, rfl⟩ := List.mem_map.mp hy
      have h0 := hpos x hx
      have h1 := le_maxL hx
      nlinarith)
    simpa [sse] using this
  unfold meanSq
  rw [div_le_iff₀ hn]
  exact hb

/-- **rmse ≤ max** for error values ≥ 0 -/
theorem rmse_le_max (l : List Rat) (h : l ≠ []) (hpos : ∀ x ∈ l, 0 ≤ x) (r : Rat) (_hr : 0 ≤ r)
    (hrr : r * r = meanSq l) : r ≤ maxL l := by
  have h1 := meanSq_le_max_sq l h hpos
  have hm : 0 ≤ maxL l := hpos _ (maxL_mem h)
  by_contra hc
  have hc : maxL l < r := not_le.mp hc
  have : maxL l * maxL l < r * r := by nlinarith
  linarith

/-- **min ≤ mean ≤ rmse ≤ max** -/
theorem min_le_mean_le_rmse_le_max (l : List Rat) (h : l ≠ []) (hpos : ∀ x ∈ l, 0 ≤ x) (r : Rat)
    (hr : 0 ≤ r) (hrr : r * r = meanSq l) : minL l ≤ mean l ∧ mean l ≤ r ∧ r ≤ maxL l :=
  ⟨min_le_mean l h, mean_le_rmse l h r hr hrr, rmse_le_max l h hpos r hr hrr⟩

/-- the median is the middle of the *sorted permutation* of the values -/
theorem median_sorted_permutation (l : List Rat) :
    (sort l).Perm l ∧ (sort l).Pairwise (· ≤ ·) ∧
    median l = (if l.length % 2 = 1 then (sort l).getD (l.length / 2) 0
                else ((sort l).getD (l.length / 2 - 1) 0 + (sort l).getD (l.length / 2) 0) / 2) := by
  refine ⟨sort_perm l, sort_sorted l, ?_⟩
  simp only [median, sort_length]

/-- **min ≤ median ≤ max** -/
theorem min_le_median_le_max (l : List Rat) (h : l ≠ []) : minL l ≤ median l ∧ median l ≤ maxL l := by
  have hn : 0 < l.length := List.length_pos_of_ne_nil h
  rw [(median_sorted_permutation l).2.2]
  split
  · exact sort_getD_bounds (Nat.div_lt_self hn (by omega))
  · have h1 := sort_getD_bounds (l := l) (i := l.length / 2 - 1) (by omega)
    have h2 := sort_getD_bounds (l := l) (i := l.length / 2) (Nat.div_lt_self hn (by omega))
    constructor
    · rw [le_div_iff₀ (by norm_num : (0 : Rat) < 2)]; linarith [h1.1, h2.1]
    · rw [div_le_iff₀ (by norm_num : (0 : Rat) < 2)]; linarith [h1.2, h2.2]

/-- min and max are attained and bound every value -/
theorem min_max_are_extremal_values (l : List Rat) (h : l ≠ []) :
    minL l ∈ l ∧ maxL l ∈ l ∧ ∀ x ∈ l, minL l ≤ x ∧ x ≤ maxL l :=
  ⟨minL_mem h, maxL_mem h, fun _ hx => ⟨minL_le hx, le_maxL hx⟩⟩

/-- constant arrays and a single value: all location statistics coincide, std = 0 -/
theorem constant_array (c : Rat) (n : Nat) :
    let l := List.replicate (n + 1) c
    mean l = c ∧ minL l = c ∧ maxL l = c ∧ var l = 0 ∧ meanSq l = c * c := by
  intro l
  have hne : l ≠ [] := by simp [l]
  have hmem : ∀ x ∈ l, x = c := fun x hx => (List.mem_replicate.mp hx).2
  have hmin : minL l = c := hmem _ (minL_mem hne)
  have hmax : maxL l = c := hmem _ (maxL_mem hne)
  have hmean : mean l = c := by
    have h1 := min_le_mean l hne
    have h2 := mean_le_max l hne
    rw [hmin] at h1; rw [hmax] at h2
    exact le_antisymm h2 h1
  have hsq : meanSq l = c * c := by
    have hn := length_pos_cast hne
    have hs : sse l = (c * c) * (l.length : Rat) := by
      apply le_antisymm
      · have := sum_le_of_forall_le (c * c) (l.map fun x => x * x) (by
          intro y hy; obtain ⟨x, hx, rfl⟩ := List.mem_map.mp hy; rw [hmem x hx])
        simpa [sse] using this
      · have := sum_ge_of_forall_ge (c * c) (l.map fun x => x * x) (by
          intro y hy; obtain ⟨x, hx, rfl⟩ := List.mem_map.mp hy; rw [hmem x hx])
        simpa [sse] using this
    unfold meanSq
    rw [hs]; field_simp
  refine ⟨hmean, hmin, hmax, ?_, hsq⟩
  have := rmse_sq_eq_mean_sq_add_var l hne
  rw [hsq, hmean] at this
  linarith

/-! ## units -/

/-- the conversions the property statement allows: both length, both angle, or no change -/
def Allowed (u v : U) : Prop := (u ∈ lengthUnits ∧ v ∈ lengthUnits) ∨ (u ∈ angleUnits ∧ v ∈ angleUnits) ∨ u = v

instance (u v : U) : Decidable (Allowed u v) := by unfold Allowed; infer_instance

/-- value of one unit in the base unit of its kind (metre, radian), written down from the
property statement: mm, cm, m, km; deg = π/180 rad -/
def toBase : U → Factor
  | .millimeters => ⟨(1 : Rat) / 1000, 0⟩
  | .centimeters => ⟨(1 : Rat) / 100, 0⟩
  | .meters => ⟨1, 0⟩
  | .kilometers => ⟨1000, 0⟩
  | .degrees => ⟨(1 : Rat) / 180, 1⟩
  | .radians => ⟨1, 0⟩
  | _ => ⟨1, 0⟩

/-- **conversions between angle and length, or of unit-less / percent / frame / second
quantities, are refused; all others are carried out** (complete 10 × 10 matrix) -/
theorem convert_allowed_iff : ∀ u ∈ U.all, ∀ v ∈ U.all, ((factor u v).isSome ↔ Allowed u v) := by
  decide +kernel

/-- **the exact conversion factor**: `factor u v = toBase u / toBase v` -/
theorem factor_def : ∀ u ∈ U.all, ∀ v ∈ U.all, Allowed u v → factor u v = some ((toBase u).div (toBase v)) := by
  decide +kernel

theorem factor_self : ∀ u ∈ U.all, factor u u = some Factor.one := by decide +kernel

/-- table form of `factor_comp` (a decidable statement over the 1000 unit triples) -/
def compOk (u v w : U) : Bool :=
  match factor u v, factor v w with
  | some f, some g => decide (factor u w = some (f.mul g))
  | _, _ => true

theorem factor_comp_table : ∀ u ∈ U.all, ∀ v ∈ U.all, ∀ w ∈ U.all, compOk u v w = true := by
  decide +kernel

/-- converting `u → v → w` is converting `u → w` -/
theorem factor_comp (u v w : U) (f g : Factor) (h1 : factor u v = some f) (h2 : factor v w = some g) :
    factor u w = some (f.mul g) := by
  have := factor_comp_table u (U.mem_all u) v (U.mem_all v) w (U.mem_all w)
  unfold compOk at this
  rw [h1, h2] at this
  simpa using this

/-- the table `METER_SCALE_FACTORS` in the source says what the statement says -/
theorem meter_factors_table :
    meterFactor .millimeters = some ((1 : Rat) / 1000) ∧ meterFactor .centimeters = some ((1 : Rat) / 100) ∧
    meterFactor .meters = some 1 ∧ meterFactor .kilometers = some 1000 ∧
    ∀ u ∈ U.all, ((meterFactor u).isSome ↔ u ∈ lengthUnits) := by
  decide +kernel

/-- the model of `change_unit` behaves, on all 100 ordered unit pairs, like the outcome
observed by *running* `PE.change_unit` (table regenerated on every run) -/
theorem model_matches_observed : ∀ u ∈ U.all, ∀ v ∈ U.all, classify u v = observed u v := by
  decide +kernel

/-- an allowed conversion multiplies every value by the factor and updates the unit -/
theorem change_unit_scales (pe : PE) (v : U) (f : Factor) (hne : pe.error ≠ []) (huv : pe.unit ≠ v)
    (hf : factor pe.unit v = some f) :
    changeUnit pe v = some { unit := v, error := pe.error.map (fun x => f.q * x), piPow := pe.piPow + f.piPow } := by
  unfold changeUnit
  rw [if_neg huv, hf]
  have : pe.error.isEmpty = false := by
    cases h : pe.error with
    | nil => exact absurd h hne
    | cons _ _ => rfl
  simp [this]

/-- **refused conversions leave unit and values untouched** (`none` = exception, the object
keeps its state) and a conversion to the same unit is the identity -/
theorem refused_leaves_values (pe : PE) (v : U) :
    (¬ Allowed pe.unit v → changeUnit pe v = none) ∧ (pe.unit = v → changeUnit pe v = some pe) := by
  constructor
  · intro hna
    have hnone : factor pe.unit v = none := by
      have := convert_allowed_iff pe.unit (U.mem_all _) v (U.mem_all _)
      cases hf : factor pe.unit v with
      | none => rfl
      | some f => exact absurd (this.mp (by simp [hf])) hna
    have hne : pe.unit ≠ v := fun e => hna (Or.inr (Or.inr e))
    unfold changeUnit
    rw [if_neg hne, hnone]
  · intro e
    unfold changeUnit
    rw [if_pos e]

/-- `change_unit` either fails or yields exactly: unit = requested unit, values scaled by the
factor of the table -/
theorem change_unit_result (pe pe' : PE) (v : U) (h : changeUnit pe v = some pe') :
    pe'.unit = v ∧ ∃ f, factor pe.unit v = some f ∧ pe'.error = pe.error.map (fun x => f.q * x) ∧
      pe'.piPow = pe.piPow + f.piPow := by
  unfold changeUnit at h
  split at h
  · next e =>
    cases h
    refine ⟨e, Factor.one, ?_, ?_, ?_⟩
    · rw [e]; exact factor_self v (U.mem_all v)
    · simp [Factor.one]
    · simp [Factor.one]
  · split at h
    · cases h
    · next f hf =>
      split at h
      · cases h
      · cases h
        exact ⟨rfl, f, hf, rfl, rfl⟩

/-! ## unit of a relation, label, title -/

/-- which unit each pose relation is measured in (APE and RPE) -/
theorem relation_units :
    apeUnit .translation_part = .meters ∧ apeUnit .point_distance = .meters ∧
    apeUnit .rotation_angle_deg = .degrees ∧ apeUnit .rotation_angle_rad = .radians ∧
    apeUnit .rotation_part = .none ∧ apeUnit .full_transformation = .none ∧
    rpeUnit .point_distance_error_ratio = .percent ∧
    ∀ r ∈ Rel.all, r ≠ .point_distance_error_ratio → rpeUnit r = apeUnit r := by
  decide +kernel

/-- **label and title name the metric, the pose relation and the unit the values are in**:
whatever `--change_unit` asks for, a returned result carries the unit its values were
converted to, in the label and in the title. -/
theorem label_names_metric_and_unit (rel : Rel) (chg : Option U) (probe : List Rat) (nm : Naming)
    (h : apeNaming rel chg probe = some nm) :
    nm.label = "APE" ++ " (" ++ nm.unit.value ++ ")" ∧
    nm.titleHead = "APE w.r.t. " ++ rel.value ++ " " ++ "(" ++ nm.unit.value ++ ")" ∧
    (chg = none → nm.unit = apeUnit rel) ∧
    (∀ v, chg = some v → nm.unit = v ∧ (v ≠ apeUnit rel → Allowed (apeUnit rel) v)) := by
  unfold apeNaming at h
  cases chg with
  | none =>
    simp only [Option.map_some, Option.some.injEq] at h
    subst h
    simp [metricLabel, apeTitle]
  | some v =>
    simp only [Option.map_eq_some_iff] at h
    obtain ⟨pe', hpe, rfl⟩ := h
    obtain ⟨hu, f, hf, _, _⟩ := change_unit_result _ _ _ hpe
    refine ⟨by simp [metricLabel], by simp [apeTitle], by simp, ?_⟩
    intro w hw
    cases hw
    refine ⟨hu, fun _ => ?_⟩
    exact (convert_allowed_iff _ (U.mem_all _) _ (U.mem_all _)).mp (by simp [hf])

theorem rpe_label_names_metric_and_unit (rel : Rel) (chg : Option U) (probe : List Rat) (d : String)
    (du : U) (ap : Bool) (nm : Naming) (h : rpeNaming rel chg probe d du ap = some nm) :
    nm.label = "RPE" ++ " (" ++ nm.unit.value ++ ")" ∧
    nm.titleHead = rpeTitle rel nm.unit d du ap ∧
    (chg = none → nm.unit = rpeUnit rel) ∧
    (∀ v, chg = some v → nm.unit = v ∧ (v ≠ rpeUnit rel → Allowed (rpeUnit rel) v)) := by
  unfold rpeNaming at h
  cases chg with
  | none =>
    simp only [Option.map_some, Option.some.injEq] at h
    subst h
    simp [metricLabel]
  | some v =>
    simp only [Option.map_eq_some_iff] at h
    obtain ⟨pe', hpe, rfl⟩ := h
    obtain ⟨hu, f, hf, _, _⟩ := change_unit_result _ _ _ hpe
    refine ⟨by simp [metricLabel], rfl, by simp, ?_⟩
    intro w hw
    cases hw
    refine ⟨hu, fun _ => ?_⟩
    exact (convert_allowed_iff _ (U.mem_all _) _ (U.mem_all _)).mp (by simp [hf])

/-! ## a result handed out earlier is not changed by a later unit change (F11) -/

/-- repaired `change_unit`: every array that existed before still holds the same values
(in particular the one an earlier `get_result()` refers to), for any heap and any units -/
theorem earlier_result_unchanged (h : Heap) (pe : PEObj) (v : U) (a : Nat) (ha : a < h.length) :
    (changeUnitH h pe v).1.getD a [] = h.getD a [] := by
  unfold changeUnitH
  split
  · rfl
  · split
    · rfl
    · split
      · rfl
      · simp only [List.getD_eq_getElem?_getD]
        rw [List.getElem?_append_left ha]

/-- the pinned code (before fix 06bb385): after `get_result(); change_unit(mm)` the earlier
result labelled "APE (m)" holds the values in millimetres -/
theorem f11_counterexample :
    let h0 : Heap := [[1, 2]]
    let pe0 : PEObj := ⟨.meters, 0⟩
    let res := getResultH "APE" pe0
    res.label = "APE (m)" ∧
    (changeUnitHOld h0 pe0 .millimeters).1.getD res.addr [] = [1000, 2000] ∧
    (changeUnitH h0 pe0 .millimeters).1.getD res.addr [] = [1, 2] := by
  decide +kernel

/-! ## one metric object used for several evaluations -/

/-- **each evaluation is named after its own data**: after `process_data` the object holds the
fresh values under the relation's native unit, whatever happened to the object before (earlier
evaluations, unit changes); a result taken now is labelled with that unit, and a following
`change_unit` starts from it. -/
theorem reprocess_names_native_unit (native : U) (pe : PE) (vals : List Rat) :
    (processData native pe vals).unit = native ∧ (processData native pe vals).error = vals ∧
    (processData native pe vals).piPow = 0 ∧
    metricLabel "APE" (processData native pe vals).unit = "APE" ++ " (" ++ native.value ++ ")" ∧
    ∀ v, changeUnit (processData native pe vals) v = changeUnit { unit := native, error := vals } v :=
  ⟨rfl, rfl, rfl, rfl, fun _ => rfl⟩

/-- **a refused batch leaves the object as it was**: unit and values stay together — the label
still names the unit the kept values are in, and a following `change_unit` converts them once. -/
theorem refused_process_keeps_unit_and_values (native : U) (pe : PE) :
    processBatch native pe none = pe ∧
    metricLabel "APE" (processBatch native pe none).unit = metricLabel "APE" pe.unit ∧
    ∀ v, changeUnit (processBatch native pe none) v = changeUnit pe v :=
  ⟨rfl, rfl, fun _ => rfl⟩

/-- an accepted batch is `processData` -/
theorem accepted_process_is_reset (native : U) (pe : PE) (vals : List Rat) :
    processBatch native pe (some vals) = { unit := native, error := vals, piPow := 0 } := rfl

/-- resetting the unit *before* the batch is checked (seeded change C12-5) breaks it: good batch,
`change_unit(cm)`, refused batch — the object would report metres over centimetre values, and
converting "to centimetres" would scale a second time -/
theorem early_reset_counterexample :
    let pe1 : PE := { unit := .centimeters, error := [100] }      -- 1 m after change_unit(cm)
    let early : PE := { pe1 with unit := .meters }                -- unit reset, then the batch is refused
    processBatch .meters pe1 none = pe1 ∧
    metricLabel "APE" early.unit = "APE (m)" ∧ early.error = [100] ∧
    changeUnit early .centimeters = some { unit := .centimeters, error := [10000] } := by
  decide +kernel

/-- **the pinned code (before fix 46322c3)**: `process_data; change_unit(mm); process_data;
get_result` — the second evaluation's values are the fresh ones, in metres, but the object still
said millimetres, so the label read "APE (mm)" over metre values (and a later `change_unit(m)`
divided them by 1000). The repaired model names metres. -/
theorem metric_reuse_keeps_converted_unit_counterexample :
    let pe0 : PE := { unit := apeUnit .translation_part, error := [1] }
    let pe1 := (changeUnit pe0 .millimeters).getD pe0
    let pe2 := processDataOld pe1 [2]
    pe1 = { unit := .millimeters, error := [1000] } ∧
    pe2 = { unit := .millimeters, error := [2] } ∧ metricLabel "APE" pe2.unit = "APE (mm)" ∧
    changeUnit pe2 .meters = some { unit := .meters, error := [1 / 500] } ∧
    processData (apeUnit .translation_part) pe1 [2] = { unit := .meters, error := [2] } := by
  decide +kernel

/-! ## companion arrays -/

/-- **APE: every companion array has exactly one entry per pose (= per error value)**;
`distances` has one entry per stored pose (`refStepSq.length + 1`) -/
theorem ape_companions_length (ts : List Rat) (pr pe : List (V3 Rat)) (hn : 0 < ts.length)
    (hr : pr.length = ts.length) (he : pe.length = ts.length) :
    let c := apeResultArrays ts pr pe
    c.seconds.length = ts.length ∧ c.timestamps.length = ts.length ∧ c.poseOf.length = ts.length ∧
    c.stored.length = ts.length ∧ c.refStepSq.length + 1 = ts.length ∧ c.estStepSq.length + 1 = ts.length ∧
    c.skip = 0 := by
  have h1 : (stepSq pr).length + 1 = ts.length := by rw [stepSq_length, hr]; omega
  have h2 : (stepSq pe).length + 1 = ts.length := by rw [stepSq_length, he]; omega
  exact ⟨secondsFromStart_length ts, rfl, List.length_range, List.length_range, h1, h2, rfl⟩

/-- **APE: entry `k` refers to pose `k`** -/
theorem ape_companions_refer_to_pose (ts : List Rat) (pr pe : List (V3 Rat)) (k : Nat) (hk : k < ts.length) :
    let c := apeResultArrays ts pr pe
    c.poseOf[k]? = some k ∧ c.stored[k]? = some k ∧ c.timestamps[k]? = some ts[k] ∧
    c.seconds[k]? = some (ts[k] - ts[0]'(by omega)) := by
  have h0 : 0 < ts.length := by omega
  refine ⟨by simp [apeResultArrays, hk], by simp [apeResultArrays, hk], by simp [apeResultArrays, hk], ?_⟩
  exact secondsFromStart_getElem? ts k _ _ (List.getElem?_eq_getElem h0) (List.getElem?_eq_getElem hk)

/-- **RPE: every companion array has exactly one entry per pair (= per error value)**,
for any list of pair end indices (every pairing mode, also after the zero-distance filter) -/
theorem rpe_companions_length (ts : List Rat) (pr pe : List (V3 Rat)) (ids : List Nat)
    (hn : 0 < ts.length) (hr : pr.length = ts.length) (he : pe.length = ts.length)
    (hv : ∀ i ∈ ids, i < ts.length) :
    let c := rpeResultArrays ts pr pe ids
    c.seconds.length = ids.length ∧ c.timestamps.length = ids.length ∧ c.poseOf.length = ids.length ∧
    c.stored.length = ids.length + 1 ∧ c.refStepSq.length = ids.length ∧ c.estStepSq.length = ids.length := by
  have hv' : ∀ i ∈ (0 :: ids), i < ts.length := by
    intro i hi
    rcases List.mem_cons.mp hi with rfl | h
    · exact hn
    · exact hv i h
  have h1 := reduceIds_length_of_valid ts (0 :: ids) hv'
  have h2 := reduceIds_length_of_valid pr (0 :: ids) (by rw [hr]; exact hv')
  have h3 := reduceIds_length_of_valid pe (0 :: ids) (by rw [he]; exact hv')
  simp only [List.length_cons] at h1 h2 h3
  refine ⟨?_, ?_, ?_, ?_, ?_, ?_⟩
  · show ((secondsFromStart (reduceIds ts (0 :: ids))).tail).length = ids.length
    rw [List.length_tail, secondsFromStart_length, h1]; omega
  · show ((reduceIds ts (0 :: ids)).tail).length = ids.length
    rw [List.length_tail, h1]; omega
  · rfl
  · rfl
  · show (stepSq (reduceIds pr (0 :: ids))).length = ids.length
    rw [stepSq_length, h2]; omega
  · show (stepSq (reduceIds pe (0 :: ids))).length = ids.length
    rw [stepSq_length, h3]; omega

/-- **RPE: entry `k` refers to the end pose of pair `k`** — its timestamp, its time since the
first pose; and the stored trajectory is pose 0 followed by the pair end poses -/
theorem rpe_companions_refer_to_pose (ts : List Rat) (pr pe : List (V3 Rat)) (ids : List Nat)
    (hn : 0 < ts.length) (hv : ∀ i ∈ ids, i < ts.length) (k : Nat) (hk : k < ids.length) :
    let c := rpeResultArrays ts pr pe ids
    c.poseOf[k]? = some ids[k] ∧
    c.stored[k + 1]? = some ids[k] ∧ c.stored[0]? = some 0 ∧
    c.timestamps[k]? = some (ts[ids[k]]'(hv _ (List.getElem_mem hk))) ∧
    c.seconds[k]? = some (ts[ids[k]]'(hv _ (List.getElem_mem hk)) - ts[0]) := by
  have hik : ids[k] < ts.length := hv _ (List.getElem_mem hk)
  have hv' : ∀ i ∈ (0 :: ids), i < ts.length := by
    intro i hi
    rcases List.mem_cons.mp hi with rfl | h
    · exact hn
    · exact hv i h
  have hget := reduceIds_getElem ts (0 :: ids) hv' (k + 1) (by simpa using hk)
  simp only [List.getElem_cons_succ] at hget
  have hget0 := reduceIds_getElem ts (0 :: ids) hv' 0 (by simp)
  simp only [List.getElem_cons_zero] at hget0
  simp only [rpeResultArrays, List.tail_cons]
  refine ⟨by simp [hk], by simp [hk], by simp, ?_, ?_⟩
  · rw [List.getElem?_tail, hget, List.getElem?_eq_getElem hik]
  · rw [List.getElem?_tail]
    refine secondsFromStart_getElem? _ (k + 1) _ _ ?_ ?_
    · rw [hget0, List.getElem?_eq_getElem hn]
    · rw [hget, List.getElem?_eq_getElem hik]

/-- **the trajectories stored by `rpe()` are the processed ones restricted to the first pose
and the pair end poses** (for any per-pose data, e.g. the pose matrices) -/
theorem stored_traj_is_processed_one {α} (traj : List α) (ids : List Nat) (hn : 0 < traj.length)
    (hv : ∀ i ∈ ids, i < traj.length) :
    (reduceIds traj (0 :: ids)).length = ids.length + 1 ∧
    (reduceIds traj (0 :: ids))[0]? = some traj[0] ∧
    ∀ k (hk : k < ids.length), (reduceIds traj (0 :: ids))[k + 1]? = some (traj[ids[k]]'(hv _ (List.getElem_mem hk))) := by
  have hv' : ∀ i ∈ (0 :: ids), i < traj.length := by
    intro i hi
    rcases List.mem_cons.mp hi with rfl | h
    · exact hn
    · exact hv i h
  refine ⟨by simpa using reduceIds_length_of_valid traj (0 :: ids) hv', ?_, ?_⟩
  · have := reduceIds_getElem traj (0 :: ids) hv' 0 (by simp)
    simpa [List.getElem?_eq_getElem hn] using this
  · intro k hk
    have := reduceIds_getElem traj (0 :: ids) hv' (k + 1) (by simpa using hk)
    simp only [List.getElem_cons_succ] at this
    rw [this, List.getElem?_eq_getElem]

/-- **zero-distance filter of the ratio relation**: ids and values stay aligned — the kept
`(id, value)` pairs are exactly those of the pairs with non-zero reference distance, in order -/
theorem ratio_filter_aligned (r e : List Rat) (ids : List Nat) :
    (ratioFilter r e ids).1.length = (ratioFilter r e ids).2.length ∧
    List.zip (ratioFilter r e ids).1 (ratioFilter r e ids).2 =
      (List.zip r (List.zip e ids)).filterMap
        (fun t => if t.1 = 0 then none else some (t.2.2, absR (t.1 - t.2.1) / t.1 * 100)) := by
  induction r generalizing e ids with
  | nil => simp [ratioFilter]
  | cons a r ih =>
    cases e with
    | nil => simp [ratioFilter]
    | cons b e =>
      cases ids with
      | nil => simp [ratioFilter]
      | cons j ids =>
        obtain ⟨h1, h2⟩ := ih e ids
        simp only [ratioFilter, List.zip_cons_cons, List.filterMap_cons]
        by_cases ha : a = 0
        · simp only [ha, if_true]
          exact ⟨h1, h2⟩
        · simp only [ha, if_false, List.length_cons, List.zip_cons_cons]
          exact ⟨by rw [h1], by rw [h2]⟩

/-! ## non-vacuity: the hypotheses are satisfiable on concrete, non-trivial instances -/

example : median [3, 1, 2, 6] = 5 / 2 := by
  simp only [median, sort_example]; decide +kernel
example : (meanSq [1, 2, 3, 6], mean [1, 2, 3, 6], var [1, 2, 3, 6], minL [1, 2, 3, 6], maxL [1, 2, 3, 6], sse [1, 2, 3, 6])
    = (25 / 2, 3, 7 / 2, 1, 6, 50) := by decide +kernel
example : ([3, 1, 2] : List Rat) ≠ [] ∧ (∀ x ∈ ([3, 1, 2] : List Rat), 0 ≤ x) := by decide +kernel
example : ∃ r : Rat, 0 ≤ r ∧ r * r = meanSq [3, 4, 5, 0, 0, 0, 0, 0] := ⟨5 / 2, by decide +kernel⟩
example : Allowed .millimeters .kilometers ∧ ¬ Allowed .meters .degrees ∧ ¬ Allowed .percent .none := by decide
example : changeUnit { unit := .radians, error := [1, 1 / 2] } .degrees
    = some { unit := .degrees, error := [180, 90], piPow := -1 } := by decide +kernel
example : changeUnit { unit := .meters, error := [1] } .degrees = none := by decide +kernel
example : (rpeResultArrays [10, 11, 12, 13] [⟨0,0,0⟩, ⟨1,0,0⟩, ⟨2,0,0⟩, ⟨4,0,0⟩] [⟨0,0,0⟩, ⟨1,0,0⟩, ⟨2,0,0⟩, ⟨4,0,0⟩] [2, 3])
    = { stored := [0, 2, 3], seconds := [2, 3], timestamps := [12, 13], poseOf := [2, 3],
        refStepSq := [4, 4], estStepSq := [4, 4], skip := 1 } := by decide +kernel
example : ratioFilter [1, 0, 2] [3, 2, 5] [1, 2, 3] = ([1, 3], [200, 150]) := by decide +kernel
example : (apeNaming .translation_part (some .millimeters) [1]).map (·.label) = some "APE (mm)" := by decide +kernel

/-! ## real-valued layer: the literal statement about `rmse` and `std`

`rmseR l = √(mean(e²))` and `stdR l = √(var e)` (`Lemmas/StatsReal.lean`) are the real numbers
`np.sqrt(np.mean(np.power(e, 2)))` and `np.std(e)` for the exact rational values `e`; the other
statistics are rational and are cast to ℝ. -/

/-- **rmse = sqrt(mean(e²))**: `rmse` is the non-negative real number whose square is `mean(e²)` -/
theorem rmse_real_sq (l : List Rat) : rmseR l ^ 2 = ((meanSq l : ℚ) : ℝ) := rmseR_sq l

/-- `rmse ≥ 0` -/
theorem rmse_real_nonneg (l : List Rat) : 0 ≤ rmseR l := rmseR_nonneg l

/-- **std**: the non-negative real number whose square is the population variance `mean((e − mean e)²)` -/
theorem std_real_sq (l : List Rat) : stdR l ^ 2 = ((var l : ℚ) : ℝ) := stdR_sq l

/-- `std ≥ 0` -/
theorem std_real_nonneg (l : List Rat) : 0 ≤ stdR l := stdR_nonneg l

/-- `[3, 4, 5, 0, 0, 0, 0, 0]`: `mean(e²) = 25/4`, `rmse = 5/2` -/
example : rmseR [3, 4, 5, 0, 0, 0, 0, 0] = 5 / 2 := by
  have h : meanSq [3, 4, 5, 0, 0, 0, 0, 0] = 25 / 4 := by decide +kernel
  rw [rmseR, h, show (((25 / 4 : ℚ)) : ℝ) = (5 / 2) ^ 2 by norm_num, Real.sqrt_sq (by norm_num)]

/-- `[1, 2, 2, 5]`: `mean = 5/2`, `var = 9/4`, `std = 3/2` -/
example : stdR [1, 2, 2, 5] = 3 / 2 := by
  have h : var [1, 2, 2, 5] = 9 / 4 := by decide +kernel
  rw [stdR, h, show (((9 / 4 : ℚ)) : ℝ) = (3 / 2) ^ 2 by norm_num, Real.sqrt_sq (by norm_num)]

example : rmseR [1, 2, 2, 5] ^ 2 = 17 / 2 := by
  have h : meanSq [1, 2, 2, 5] = 17 / 2 := by decide +kernel
  rw [rmse_real_sq, h]; norm_num

/-- **rmse² = mean² + std²**, for the real numbers `rmse`, `std` -/
theorem rmse_sq_eq_mean_sq_add_std_sq_real (l : List Rat) (h : l ≠ []) :
    rmseR l ^ 2 = ((mean l : ℚ) : ℝ) ^ 2 + stdR l ^ 2 := by
  rw [rmse_real_sq, std_real_sq, rmse_sq_eq_mean_sq_add_var l h]
  push_cast
  ring

/-- `[1, 2, 2, 5]`: `17/2 = (5/2)² + (3/2)²` -/
example : rmseR [1, 2, 2, 5] ^ 2 = ((mean [1, 2, 2, 5] : ℚ) : ℝ) ^ 2 + stdR [1, 2, 2, 5] ^ 2 :=
  rmse_sq_eq_mean_sq_add_std_sq_real _ (by simp)

/-- **sse = sum(e²) = n · rmse²** -/
theorem sse_eq_n_mul_rmse_sq_real (l : List Rat) (h : l ≠ []) :
    ((sse l : ℚ) : ℝ) = (l.length : ℝ) * rmseR l ^ 2 := by
  rw [rmse_real_sq, sse_eq_n_mul_meanSq l h]
  push_cast
  ring

example : ((sse [1, 2, 2, 5] : ℚ) : ℝ) = 34 ∧ ((sse [1, 2, 2, 5] : ℚ) : ℝ) = 4 * rmseR [1, 2, 2, 5] ^ 2 := by
  have h : sse [1, 2, 2, 5] = 34 := by decide +kernel
  refine ⟨by rw [h]; norm_num, ?_⟩
  have := sse_eq_n_mul_rmse_sq_real [1, 2, 2, 5] (by simp)
  simpa using this

/-- **mean ≤ rmse** (no sign condition on the values) -/
theorem mean_le_rmse_real (l : List Rat) (h : l ≠ []) : ((mean l : ℚ) : ℝ) ≤ rmseR l := by
  have hq : ((mean l : ℚ) : ℝ) ^ 2 ≤ ((meanSq l : ℚ) : ℝ) := by
    have := mean_sq_le_meanSq l h
    rw [pow_two]
    exact_mod_cast this
  exact le_trans (le_abs_self _) (Real.abs_le_sqrt hq)

/-- values of either sign: `mean = -1 ≤ rmse`, `rmse² = 5` -/
example : ((mean [1, -3] : ℚ) : ℝ) ≤ rmseR [1, -3] := mean_le_rmse_real _ (by simp)

/-- **rmse ≤ max** for error values ≥ 0 -/
theorem rmse_le_max_real (l : List Rat) (h : l ≠ []) (hpos : ∀ x ∈ l, 0 ≤ x) :
    rmseR l ≤ ((maxL l : ℚ) : ℝ) := by
  have hm : (0 : ℝ) ≤ ((maxL l : ℚ) : ℝ) := Rat.cast_nonneg.mpr (hpos _ (maxL_mem h))
  have hq : ((meanSq l : ℚ) : ℝ) ≤ ((maxL l : ℚ) : ℝ) ^ 2 := by
    have := meanSq_le_max_sq l h hpos
    rw [pow_two]
    exact_mod_cast this
  exact Real.sqrt_le_iff.mpr ⟨hm, hq⟩

/-- **min ≤ mean ≤ rmse ≤ max** for the real number `rmse` (error values are ≥ 0) -/
theorem min_le_mean_le_rmse_le_max_real (l : List Rat) (h : l ≠ []) (hpos : ∀ x ∈ l, 0 ≤ x) :
    ((minL l : ℚ) : ℝ) ≤ ((mean l : ℚ) : ℝ) ∧ ((mean l : ℚ) : ℝ) ≤ rmseR l ∧
      rmseR l ≤ ((maxL l : ℚ) : ℝ) :=
  ⟨Rat.cast_le.mpr (min_le_mean l h), mean_le_rmse_real l h, rmse_le_max_real l h hpos⟩

/-- `[1, 2, 2, 5]`: `1 ≤ 5/2 ≤ √(17/2) ≤ 5` -/
example : (1 : ℝ) ≤ 5 / 2 ∧ (5 / 2 : ℝ) ≤ rmseR [1, 2, 2, 5] ∧ rmseR [1, 2, 2, 5] ≤ 5 := by
  have h := min_le_mean_le_rmse_le_max_real [1, 2, 2, 5] (by simp) (by decide +kernel)
  have h1 : minL [1, 2, 2, 5] = 1 := by decide +kernel
  have h2 : mean [1, 2, 2, 5] = 5 / 2 := by decide +kernel
  have h3 : maxL [1, 2, 2, 5] = 5 := by decide +kernel
  rw [h1, h2, h3] at h
  norm_num at h ⊢
  exact h

/-- **min ≤ median ≤ max**, cast to ℝ (all three are rational) -/
theorem min_le_median_le_max_real (l : List Rat) (h : l ≠ []) :
    ((minL l : ℚ) : ℝ) ≤ ((median l : ℚ) : ℝ) ∧ ((median l : ℚ) : ℝ) ≤ ((maxL l : ℚ) : ℝ) :=
  ⟨Rat.cast_le.mpr (min_le_median_le_max l h).1, Rat.cast_le.mpr (min_le_median_le_max l h).2⟩

/-- **std ≤ rmse** (from `rmse² = mean² + std²`) -/
theorem std_le_rmse_real (l : List Rat) (h : l ≠ []) : stdR l ≤ rmseR l := by
  have hq : var l ≤ meanSq l := by
    have := rmse_sq_eq_mean_sq_add_var l h
    have := mul_self_nonneg (mean l)
    linarith
  exact Real.sqrt_le_sqrt (Rat.cast_le.mpr hq)

example : stdR [1, 2, 2, 5] ≤ rmseR [1, 2, 2, 5] := std_le_rmse_real _ (by simp)

/-- **std = 0 exactly for constant arrays**: every value equals the mean -/
theorem std_real_zero_iff_constant (l : List Rat) (h : l ≠ []) :
    stdR l = 0 ↔ ∀ x ∈ l, x = mean l := by
  rw [stdR_eq_zero_iff, var_eq_zero_iff l h]

/-- constant arrays (in particular a single value): `std = 0` and `rmse = |c|` -/
theorem constant_array_real (l : List Rat) (h : l ≠ []) (c : Rat) (hc : ∀ x ∈ l, x = c) :
    stdR l = 0 ∧ rmseR l = |(c : ℝ)| ∧ ((mean l : ℚ) : ℝ) = c := by
  have hl : l = List.replicate (l.length - 1 + 1) c := by
    have hn : 0 < l.length := List.length_pos_of_ne_nil h
    rw [Nat.sub_add_cancel hn]
    exact List.eq_replicate_iff.mpr ⟨rfl, hc⟩
  obtain ⟨hmean, _, _, hvar, hsq⟩ := constant_array c (l.length - 1)
  rw [← hl] at hmean hvar hsq
  refine ⟨(stdR_eq_zero_iff l).mpr hvar, ?_, by rw [hmean]⟩
  rw [rmseR, hsq]
  push_cast
  exact Real.sqrt_mul_self_eq_abs _

example : stdR [7, 7, 7] = 0 ∧ rmseR [7, 7, 7] = 7 := by
  obtain ⟨h1, h2, _⟩ := constant_array_real [7, 7, 7] (by simp) 7 (by decide +kernel)
  refine ⟨h1, ?_⟩
  rw [h2]; norm_num

/-- a non-constant array has `std ≠ 0` -/
example : stdR [1, 2, 2, 5] ≠ 0 := by
  rw [Ne, std_real_zero_iff_constant _ (by simp)]
  decide +kernel

/-- **changing the unit multiplies `rmse` by the conversion factor** -/
theorem rmse_real_scale (l : List Rat) (k : Rat) (hk : 0 ≤ k) :
    rmseR (l.map (k * ·)) = (k : ℝ) * rmseR l := rmseR_map_mul k hk l

/-- **… and `std`** -/
theorem std_real_scale (l : List Rat) (k : Rat) (hk : 0 ≤ k) :
    stdR (l.map (k * ·)) = (k : ℝ) * stdR l := stdR_map_mul k hk l

/-- **… and the rational statistics** `mean`, `median`, `min`, `max` (and `sse` by its square) -/
theorem rational_stats_scale (l : List Rat) (k : Rat) (hk : 0 ≤ k) :
    mean (l.map (k * ·)) = k * mean l ∧ median (l.map (k * ·)) = k * median l ∧
    minL (l.map (k * ·)) = k * minL l ∧ maxL (l.map (k * ·)) = k * maxL l ∧
    sse (l.map (k * ·)) = k * k * sse l :=
  ⟨mean_map_mul k l, median_map_mul k hk l, minL_map_mul k hk l, maxL_map_mul k hk l, sse_map_mul k l⟩

/-- the values `change_unit` installs have the statistics of the old values times the factor
(the rational part `f.q` of the factor; the power of π is carried separately in `piPow`) -/
theorem change_unit_scales_statistics (pe pe' : PE) (v : U) (h : changeUnit pe v = some pe') :
    ∃ f, factor pe.unit v = some f ∧ (0 ≤ f.q → rmseR pe'.error = (f.q : ℝ) * rmseR pe.error ∧
      stdR pe'.error = (f.q : ℝ) * stdR pe.error ∧ mean pe'.error = f.q * mean pe.error) := by
  obtain ⟨_, f, hf, he, _⟩ := change_unit_result pe pe' v h
  refine ⟨f, hf, fun hq => ?_⟩
  rw [he]
  exact ⟨rmse_real_scale _ _ hq, std_real_scale _ _ hq, mean_map_mul _ _⟩

/-- metres → millimetres: `rmse` of `[3, 4, 5, 0, 0, 0, 0, 0]` m is `2500` mm -/
example : rmseR (([3, 4, 5, 0, 0, 0, 0, 0] : List Rat).map ((1000 : Rat) * ·)) = 1000 * rmseR [3, 4, 5, 0, 0, 0, 0, 0] := by
  have := rmse_real_scale [3, 4, 5, 0, 0, 0, 0, 0] 1000 (by norm_num)
  simpa using this

example : (median (([3, 1, 2, 6] : List Rat).map ((1000 : Rat) * ·)), minL (([3, 1, 2, 6] : List Rat).map ((1000 : Rat) * ·)))
    = (2500, 1000) := by
  rw [(rational_stats_scale [3, 1, 2, 6] 1000 (by norm_num)).2.1, (rational_stats_scale [3, 1, 2, 6] 1000 (by norm_num)).2.2.1]
  have h1 : median [3, 1, 2, 6] = 5 / 2 := by simp only [median, sort_example]; decide +kernel
  have h2 : minL [3, 1, 2, 6] = 1 := by decide +kernel
  rw [h1, h2]; norm_num

end Evo.C12
