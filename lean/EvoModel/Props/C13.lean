import EvoModel.Model.ResultMerge
namespace Evo.C13
open Evo Evo.ResultMerge
theorem merge_single_identity (r : Res) : mergeResults [r] = .ok r := rfl
end Evo.C13
