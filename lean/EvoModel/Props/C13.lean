/-
C13 — merging and tabulating results averages or concatenates exactly as documented.
Property theorems about `Evo.ResultMerge` (model of `evo/core/result.py: merge_results` after
fix c19f14b, of `pandas_bridge.result_to_df / load_results_as_dataframe` and of the statistics
table of `evo_res`), and the kernel-checked counterexample (F10) for the pinned strategy.
Helper lemmas: `Lemmas/ResultMerge.lean`.

"No input result is modified": the model is purely functional, the inputs are values — this
clause is a frame condition of the implementation and is checked by bitwise snapshots and
object identity on every correspondence case, not proved.
-/
import EvoModel.Lemmas.ResultMerge
namespace Evo.C13
open Evo Evo.ResultMerge

/-- **merging a single result returns it unchanged** -/
theorem merge_single_identity (r : Res) : mergeResults [r] = .ok r := rfl

/-- nothing to merge is refused -/
theorem merge_refuses_empty : mergeResults [] = .error .noResults := rfl

/-- **results with different statistic or array keys are refused** — whichever two of the
inputs differ, wherever they are in the list -/
theorem merge_refuses_key_mismatch (rs : List Res) (h2 : 2 ≤ rs.length) (x y : Res) (hx : x ∈ rs)
    (hy : y ∈ rs) (hne : ¬ SameKeys x y) : mergeResults rs = .error .keyMismatch := by
  match rs, h2 with
  | first :: second :: rest, _ =>
    rw [merge_eq]
    have : keysOk (first :: second :: rest) = false := by
      cases hk : keysOk (first :: second :: rest) with
      | false => rfl
      | true => exact absurd ((keysOk_iff _).mp hk x hx y hy) hne
    simp [this]

/-- **results with equal key sets are merged** (never refused) -/
theorem merge_accepts_equal_keys (rs : List Res) (hne : rs ≠ []) (h : ∀ x ∈ rs, ∀ y ∈ rs, SameKeys x y) :
    ∃ m, mergeResults rs = .ok m := by
  match rs, hne with
  | [r], _ => exact ⟨r, rfl⟩
  | first :: second :: rest, _ =>
    rw [merge_eq, (keysOk_iff _).mpr h]
    exact ⟨_, rfl⟩

/-- **the info of the first result is kept** -/
theorem merge_info_of_first (first : Res) (rest : List Res) (m : Res)
    (h : mergeResults (first :: rest) = .ok m) : m.info = first.info := by
  cases rest with
  | nil => simp only [mergeResults, Except.ok.injEq] at h; rw [← h]
  | cons second rest =>
    rw [(merge_ok_inv first second rest m h).2]
    rfl

/-- **every statistic of the merged result is the arithmetic mean of the N input values**,
under the keys (and in the key order) of the first result -/
theorem merge_stats_mean (first second : Res) (rest : List Res) (m : Res)
    (h : mergeResults (first :: second :: rest) = .ok m) :
    keys m.stats = keys first.stats ∧
    ∀ k ∈ keys first.stats,
      lookup m.stats k = some (((first :: second :: rest).map fun r => stat r k).sum
                                / (((first :: second :: rest).length : Nat) : Rat)) ∧
      ∀ r ∈ first :: second :: rest, (lookup r.stats k).isSome := by
  obtain ⟨hkeys, rfl⟩ := merge_ok_inv first second rest m h
  rw [combine_stats]
  constructor
  · exact keys_map_val _ _
  · intro k hk
    constructor
    · rw [lookup_map_val]
      obtain ⟨v, hv⟩ := Option.isSome_iff_exists.mp ((lookup_isSome_iff first.stats k).mpr hk)
      simp only [hv, Option.map_some, Option.some.injEq, List.map_cons, List.sum_cons, List.length_cons, meanStat]
      simp [stat, hv]
    · intro r hr
      rw [lookup_isSome_iff]
      exact ((hkeys r hr first (by simp)).1 k).mpr hk

/-- **arrays are averaged element-wise when all inputs have equal array lengths** (per key,
independent of the order in which each result lists its arrays) -/
theorem merge_average_when_equal_lengths (first second : Res) (rest : List Res) (m : Res)
    (h : mergeResults (first :: second :: rest) = .ok m)
    (hlen : ∀ r ∈ second :: rest, ∀ k ∈ keys first.arrays, (arr r k).length = (arr first k).length) :
    keys m.arrays = keys first.arrays ∧
    ∀ k ∈ keys first.arrays,
      (arr m k).length = (arr first k).length ∧
      ∀ i, i < (arr first k).length →
        (arr m k).getD i 0 = ((first :: second :: rest).map fun r => (arr r k).getD i 0).sum
                              / (((first :: second :: rest).length : Nat) : Rat) := by
  obtain ⟨_, rfl⟩ := merge_ok_inv first second rest m h
  have havg : average (first :: second :: rest) = true := (average_iff first (second :: rest)).mpr hlen
  rw [havg]
  constructor
  · rw [combine_arrays_avg]; exact keys_map_val _ _
  · intro k hk
    obtain ⟨a, ha⟩ := Option.isSome_iff_exists.mp ((lookup_isSome_iff first.arrays k).mpr hk)
    have hfirst : arr first k = a := by simp [arr, ha]
    have hbs : ∀ b ∈ (second :: rest).map (fun r => arr r k), b.length = a.length := by
      intro b hb
      obtain ⟨r, hr, rfl⟩ := List.mem_map.mp hb
      rw [← hfirst]; exact hlen r hr k hk
    have harr : arr (combine true first (second :: rest)) k
        = (addAll a ((second :: rest).map fun r => arr r k)).map fun x => x / (((second :: rest).length + 1 : Nat) : Rat) := by
      unfold arr
      rw [combine_arrays_avg, lookup_map_val, ha]
      rfl
    rw [harr, hfirst]
    constructor
    · rw [List.length_map, addAll_length a _ hbs]
    · intro i _
      rw [getD_map_div, addAll_getD a _ hbs]
      simp only [List.map_map, List.map_cons, List.sum_cons, List.length_cons, hfirst, Function.comp_def]

/-- **otherwise the arrays are concatenated in input order** -/
theorem merge_concat_otherwise_in_order (first second : Res) (rest : List Res) (m : Res)
    (h : mergeResults (first :: second :: rest) = .ok m)
    (hlen : ¬ ∀ r ∈ second :: rest, ∀ k ∈ keys first.arrays, (arr r k).length = (arr first k).length) :
    keys m.arrays = keys first.arrays ∧
    ∀ k ∈ keys first.arrays, arr m k = ((first :: second :: rest).map fun r => arr r k).flatten := by
  obtain ⟨_, rfl⟩ := merge_ok_inv first second rest m h
  have havg : average (first :: second :: rest) = false := by
    cases ha : average (first :: second :: rest) with
    | false => rfl
    | true => exact absurd ((average_iff first (second :: rest)).mp ha) hlen
  rw [havg]
  constructor
  · rw [combine_arrays_append]; exact keys_map_val _ _
  · intro k hk
    obtain ⟨a, ha⟩ := Option.isSome_iff_exists.mp ((lookup_isSome_iff first.arrays k).mpr hk)
    have hfirst : arr first k = a := by simp [arr, ha]
    unfold arr
    rw [combine_arrays_append, lookup_map_val, ha]
    simp only [Option.map_some, Option.getD_some, List.map_cons, List.flatten_cons, catArr, arr, ha]

/-- the strategy depends only on the per-key lengths: **insertion order of the arrays in the
individual results does not matter** (this is what fix c19f14b repaired) -/
theorem merge_strategy_is_per_key (first : Res) (rest : List Res) :
    average (first :: rest) = true ↔
      ∀ r ∈ rest, ∀ k ∈ keys first.arrays, (arr r k).length = (arr first k).length :=
  average_iff first rest

def f10a : Res := ⟨[], [("rmse", 1)], [("a", [1, 2]), ("b", [1, 2, 3])]⟩
def f10b : Res := ⟨[], [("rmse", 3)], [("b", [3, 2, 1]), ("a", [3, 4])]⟩
def f10c : Res := ⟨[], [("rmse", 3)], [("b", [3, 4]), ("a", [3, 2, 1])]⟩

/-- **F10, the pinned code**: two results holding the same arrays with equal per-key lengths,
listed in a different order (`f10a`, `f10b`), were concatenated instead of averaged; with
unequal per-key lengths but the same size lists (`f10a`, `f10c`) numpy refused to add them.
The repaired model averages / concatenates. -/
theorem merge_strategy_counterexample :
    mergeResultsOld [f10a, f10b] = .ok ⟨[], [("rmse", 2)], [("a", [1, 2, 3, 4]), ("b", [1, 2, 3, 3, 2, 1])]⟩ ∧
    mergeResults [f10a, f10b] = .ok ⟨[], [("rmse", 2)], [("a", [2, 3]), ("b", [2, 2, 2])]⟩ ∧
    mergeResultsOld [f10a, f10c] = .error .broadcast ∧
    mergeResults [f10a, f10c] = .ok ⟨[], [("rmse", 2)], [("a", [1, 2, 3, 2, 1]), ("b", [1, 2, 3, 3, 4])]⟩ := by
  decide +kernel

/-! ## the table of `evo_res` -/

/-- the label of a result: the given file name, else the base name of `est_name` -/
theorem label_is_filename_or_estimate_basename (r : Res) :
    (∀ f, labelOf (some f) r = f) ∧
    (∀ e, lookup r.info "est_name" = some e → labelOf none r = basename e) ∧
    (lookup r.info "est_name" = none → labelOf none r = "unnamed_result") := by
  refine ⟨fun _ => rfl, fun e he => ?_, fun he => ?_⟩ <;> simp [labelOf, he]

/-- the base name has no `/`, and the estimate name is `prefix ++ base name` with the prefix
empty or ending in `/` (`os.path.basename`) -/
theorem basename_spec (l : List Char) :
    '/' ∉ lastSeg l ∧ ∃ pre, l = pre ++ lastSeg l ∧ (pre = [] ∨ ∃ p, pre = p ++ ['/']) :=
  lastSeg_spec l

/-- **the table contains, for every input result file, exactly the statistics stored in that
file under that result's label**, in command-line order, and the labels are distinct -/
theorem table_rows_are_file_stats (files : List (String × Res)) (uf : Bool) (t : Table)
    (h : resultTable files uf false = .ok t) :
    t = files.map (fun p => (labelOf (if uf then some p.1 else none) p.2, p.2.stats)) ∧
    (t.map Prod.fst).Nodup ∧ t.length = files.length := by
  simp only [resultTable, Bool.false_eq_true, if_false] at h
  split at h
  · cases h
  · next hd =>
    simp only [Except.ok.injEq] at h
    subst h
    refine ⟨rfl, ?_, by simp [rowsOf]⟩
    exact (hasDup_iff _).mp (by simpa using hd)

/-- duplicate labels are refused (evo_res exits with an error) -/
theorem table_refuses_duplicate_labels (files : List (String × Res)) (uf : Bool)
    (h : ¬ ((rowsOf files uf).map Prod.fst).Nodup) :
    resultTable files uf false = .error .duplicateLabels := by
  simp only [resultTable, Bool.false_eq_true, if_false]
  split
  · rfl
  · next hd =>
    exact absurd ((hasDup_iff _).mp (by simpa using hd)) h

/-- **with the merge option the table holds the merged values**: one row, labelled like the
first result, with the statistics of `mergeResults` -/
theorem table_merge_row (files : List (String × Res)) (uf : Bool) (t : Table)
    (h : resultTable files uf true = .ok t) :
    ∃ m, mergeResults (files.map Prod.snd) = .ok m ∧ t = [(labelOf none m, m.stats)] ∧
      ∀ f rest, files = f :: rest → labelOf none m = labelOf none f.2 := by
  simp only [resultTable, if_true] at h
  cases hm : mergeResults (files.map Prod.snd) with
  | error e => simp [hm] at h
  | ok m =>
    simp only [hm, Except.ok.injEq] at h
    refine ⟨m, rfl, h.symm, ?_⟩
    intro f rest hf
    subst hf
    have := merge_info_of_first f.2 (rest.map Prod.snd) m (by simpa using hm)
    simp [labelOf, this]

/-! ## non-vacuity -/

example : mergeResults [⟨[("est_name", "x/a")], [("rmse", 1), ("max", 4)], [("e", [1, 2])]⟩,
                        ⟨[("est_name", "b")], [("max", 2), ("rmse", 2)], [("e", [3, 6])]⟩,
                        ⟨[("est_name", "c")], [("rmse", 6), ("max", 0)], [("e", [5, 1])]⟩]
    = .ok ⟨[("est_name", "x/a")], [("rmse", 3), ("max", 2)], [("e", [3, 3])]⟩ := by decide +kernel
example : mergeResults [⟨[], [("rmse", 1)], [("e", [1, 2])]⟩, ⟨[], [("rmse", 2)], [("e", [3])]⟩,
                        ⟨[], [("rmse", 6)], [("e", [])]⟩]
    = .ok ⟨[], [("rmse", 3)], [("e", [1, 2, 3])]⟩ := by decide +kernel
example : mergeResults [⟨[], [("rmse", 1)], []⟩, ⟨[], [("mean", 2)], []⟩] = .error .keyMismatch := by decide +kernel
example : ¬ SameKeys ⟨[], [("rmse", 1)], []⟩ ⟨[], [("mean", 2)], []⟩ := by
  intro h; have := (h.1 "rmse").mp (by decide); revert this; decide
example : lastSeg ['r', 'u', 'n', 's', '/', '1', '/', 'a', '.', 't'] = ['a', '.', 't'] := by decide
example : resultTable [("f1.zip", ⟨[], [("rmse", 1)], []⟩), ("f2.zip", ⟨[], [("rmse", 2)], []⟩)] true false
    = .ok [("f1.zip", [("rmse", 1)]), ("f2.zip", [("rmse", 2)])] := by decide +kernel
example : resultTable [("f1.zip", ⟨[], [("rmse", 1)], []⟩), ("f2.zip", ⟨[], [("rmse", 2)], []⟩)] false false
    = .error .duplicateLabels := by decide +kernel

end Evo.C13
