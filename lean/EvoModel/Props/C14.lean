import EvoModel.Lemmas.SO3
import EvoModel.Model.Project
namespace Evo.C14
open Evo Evo.Project

theorem project_twice_refused_stub : history ⟨[0], [Pose.one], false⟩ [.xy, .xz] = [true, false] := by decide +kernel

end Evo.C14
