/-
C14 — plane projection (`PosePath3D.project`, `euler_from_matrix(·, "sxyz")`).
Property theorems about `Model/Project.lean`, for every ordered field `K` (ℚ: what the driver
runs; ℝ: every heading, last section).  `(c, s)` is the normalised Euler direction, a certified
input of the model (`Dir.IsUnit`), proved to be unique (`dir_unit_unique`).

The property is **false** of the code for the XZ plane and headings beyond ±90°
(`project_xz_counterexample`, finding F1): `project_xz_fixes_planar_partial` covers `cos ≥ 0` only.
-/
import EvoModel.Lemmas.Lie
import EvoModel.Model.Project
namespace Evo.C14
open Evo Evo.Project

set_option linter.unusedSectionVars false

section ordered
variable {K : Type} [Field K] [LinearOrder K] [IsStrictOrderedRing K]

/-! ### the certified direction is unique -/

/-- `Dir.IsUnit` determines `(c, s)`: the model leaves no freedom in the projected rotation -/
theorem dir_unit_unique (d : Dir K) (hx : 0 ≤ d.xsq) {c s c' s' : K}
    (h : d.IsUnit c s) (h' : d.IsUnit c' s') : c = c' ∧ s = s' := by
  obtain ⟨h1, h2, h3, h4, h5⟩ := h
  obtain ⟨h1', h2', h3', h4', h5'⟩ := h'
  by_cases hN : d.xsq + d.y * d.y = 0
  · obtain ⟨rfl, rfl⟩ := h5 hN
    obtain ⟨rfl, rfl⟩ := h5' hN
    exact ⟨rfl, rfl⟩
  · have hNpos : 0 < d.xsq + d.y * d.y :=
      lt_of_le_of_ne (by nlinarith [mul_self_nonneg d.y]) (Ne.symm hN)
    have hcc : c * c = c' * c' := by
      have : (c * c - c' * c') * (d.xsq + d.y * d.y) = 0 := by linear_combination h2 - h2'
      rcases mul_eq_zero.mp this with h | h
      · linear_combination h
      · exact absurd h hN
    have hc : c = c' := by
      have hf : (c - c') * (c + c') = 0 := by linear_combination hcc
      rcases mul_eq_zero.mp hf with h | h
      · linear_combination h
      · by_cases hn : d.xneg = true
        · simp only [hn, if_true] at h3 h3'
          have : c = 0 := by linarith
          have : c' = 0 := by linarith
          simp [*]
        · simp only [hn] at h3 h3'
          have h3a : 0 ≤ c := by simpa using h3
          have h3b : 0 ≤ c' := by simpa using h3'
          have : c = 0 := by linarith
          have : c' = 0 := by linarith
          simp [*]
    refine ⟨hc, ?_⟩
    have hss : s * s = s' * s' := by subst hc; linear_combination h1 - h1'
    have hf : (s - s') * (s + s') = 0 := by linear_combination hss
    rcases mul_eq_zero.mp hf with h | h
    · linear_combination h
    · -- s' = −s, both with the sign of y: s·y = 0
      have hs' : s' = -s := by linear_combination h
      rw [hs'] at h4'
      have hsy : s * d.y = 0 := by nlinarith
      rcases mul_eq_zero.mp hsy with h0 | h0
      · rw [hs', h0]; simp
      · -- y = 0: c² = 1, s = 0
        have hx' : c * c * d.xsq = d.xsq := by rw [h0] at h2; linear_combination h2
        have hxs : d.xsq ≠ 0 := by intro e; apply hN; rw [e, h0]; ring
        have hc1 : c * c = 1 := by
          have : (c * c - 1) * d.xsq = 0 := by linear_combination hx'
          rcases mul_eq_zero.mp this with h | h
          · linear_combination h
          · exact absurd h hxs
        have hs0 : s * s = 0 := by linear_combination h1 - hc1
        have : s = 0 := mul_self_eq_zero.mp hs0
        rw [hs', this]; simp

/-- a point of the unit circle is the unit vector of the direction it spans -/
theorem isUnit_of_circle (c0 s0 : K) (g : Bool) (h : c0 * c0 + s0 * s0 = 1) :
    (⟨c0 * c0, decide (c0 < 0), s0, g⟩ : Dir K).IsUnit c0 s0 := by
  refine ⟨h, ?_, ?_, mul_self_nonneg s0, ?_⟩
  · show c0 * c0 * (c0 * c0 + s0 * s0) = c0 * c0
    rw [h, mul_one]
  · by_cases hc : c0 < 0
    · simp only [hc, decide_true, if_true]; exact hc.le
    · simp only [hc, decide_false]; simpa using hc
  · intro h0
    have : c0 * c0 + s0 * s0 = 0 := h0
    rw [h] at this
    exact absurd this one_ne_zero

/-! ### positions -/

/-- every position has a zero out-of-plane coordinate -/
theorem project_out_of_plane_zero (pl : Plane) (p : Pose K) (c s : K) :
    normalCoord pl (projectPose pl p c s).t = 0 := by
  cases pl <;> rfl

/-- the in-plane coordinates are unchanged -/
theorem project_in_plane_kept (pl : Plane) (p : Pose K) (c s : K) :
    inPlane pl (projectPose pl p c s).t = inPlane pl p.t := by
  cases pl <;> rfl

/-! ### orientations -/

/-- every new orientation is a pure rotation about the plane normal: it fixes the normal (from
both sides), is a proper rotation, and is the Rodrigues matrix `exp(φ·n)` of the unit normal -/
theorem project_pure_rotation_about_normal (pl : Plane) (c s : K) (h : c * c + s * s = 1) :
    (rotAbout pl c s).mulVec pl.axis = pl.axis ∧
    (rotAbout pl c s).transpose.mulVec pl.axis = pl.axis ∧
    IsRot (rotAbout pl c s) ∧
    rotAbout pl c s = rodrigues pl.axis s (1 - c) := by
  refine ⟨?_, ?_, ⟨?_, ?_⟩, ?_⟩
  · cases pl <;> ext <;> simp [rotAbout, Plane.axis, M3.mulVec]
  · cases pl <;> ext <;> simp [rotAbout, Plane.axis, M3.mulVec, M3.transpose]
  · unfold IsOrtho
    cases pl <;> ext <;> simp only [rotAbout, M3.mul, M3.transpose, M3.one] <;>
      first | linear_combination h | ring
  · cases pl <;> simp only [rotAbout, M3.det] <;> linear_combination h
  · cases pl <;> ext <;> simp only [rotAbout, Plane.axis, rodrigues, M3.add, M3.smul, M3.mul, M3.hat, M3.one] <;> ring

/-- every projected pose is a valid rigid-body pose (orthonormal block, determinant 1; the bottom
row `0 0 0 1` is structural in `Pose`) -/
theorem project_rigid (epsSq : K) (pl : Plane) (p : Pose K) (c s : K)
    (h : (dirOf epsSq pl p.rot).IsUnit c s) :
    IsRigid (projectPose pl p c s) ∧ (projectPose pl p c s).rot.det = 1 := by
  have hr := (project_pure_rotation_about_normal pl c s h.1).2.2.1
  exact ⟨hr.1, hr.2⟩

/-! ### count, order, timestamps, one-shot flag -/

theorem projectPoses_spec (epsSq : K) (pl : Plane) :
    ∀ (ps : List (Pose K)) (ang : List (K × K)), AnglesOk epsSq pl ps ang →
      (projectPoses pl ps ang).length = ps.length ∧
      ∀ (i : Nat) (p : Pose K), ps[i]? = some p →
        ∃ cs, ang[i]? = some cs ∧ (dirOf epsSq pl p.rot).IsUnit cs.1 cs.2 ∧
          (projectPoses pl ps ang)[i]? = some (projectPose pl p cs.1 cs.2)
  | [], [], _ => by simp [projectPoses]
  | [], _ :: _, h => by simp [AnglesOk] at h
  | _ :: _, [], h => by simp [AnglesOk] at h
  | p :: ps, cs :: css, h => by
      obtain ⟨h0, hrest⟩ := h
      obtain ⟨hl, hi⟩ := projectPoses_spec epsSq pl ps css hrest
      refine ⟨by simp [projectPoses, hl], ?_⟩
      intro i q hq
      cases i with
      | zero =>
          simp only [List.getElem?_cons_zero, Option.some.injEq] at hq
          subst hq
          exact ⟨cs, by simp, h0, by simp [projectPoses]⟩
      | succ j =>
          simp only [List.getElem?_cons_succ] at hq
          obtain ⟨cs', e1, e2, e3⟩ := hi j q hq
          exact ⟨cs', by simpa using e1, e2, by simpa [projectPoses] using e3⟩

/-- count, order and timestamps are unchanged: the result has the same stamps, as many poses, and
its `i`-th pose is the projection of the `i`-th input pose -/
theorem project_count_order_stamps (epsSq : K) (pl : Plane) (tr tr' : Traj K) (ang : List (K × K))
    (hang : AnglesOk epsSq pl tr.poses ang) (h : project pl tr ang = some tr') :
    tr'.stamps = tr.stamps ∧ tr'.poses.length = tr.poses.length ∧
    ∀ (i : Nat) (p : Pose K), tr.poses[i]? = some p →
      ∃ cs, ang[i]? = some cs ∧ (dirOf epsSq pl p.rot).IsUnit cs.1 cs.2 ∧
        tr'.poses[i]? = some (projectPose pl p cs.1 cs.2) := by
  unfold project at h
  split at h
  · exact absurd h (by simp)
  · have e := Option.some.inj h
    subst e
    obtain ⟨hl, hi⟩ := projectPoses_spec epsSq pl tr.poses ang hang
    exact ⟨rfl, hl, hi⟩

/-- a first projection is carried out, a second projection of the same object is refused
(whatever the plane), and the refusal leaves the object as it is (`none`: nothing is returned) -/
theorem project_twice_refused (pl pl' : Plane) (tr : Traj K) (ang ang' : List (K × K))
    (h0 : tr.projected = false) :
    ∃ tr', project pl tr ang = some tr' ∧ tr'.projected = true ∧ project pl' tr' ang' = none := by
  refine ⟨⟨tr.stamps, projectPoses pl tr.poses ang, true⟩, ?_, rfl, ?_⟩
  · unfold project; simp [h0]
  · unfold project; simp

/-! ### planar poses are fixed (true projection) — XY, YZ: every heading; XZ: only `cos ≥ 0` -/

/-- **XY**: a pose in the plane (`z = 0`, rotation about z by any heading `(c₀, s₀)` on the unit
circle) is left unchanged -/
theorem project_xy_fixes_planar (epsSq c0 s0 x y c s : K) (heps : epsSq < 1)
    (h0 : c0 * c0 + s0 * s0 = 1)
    (h : (dirOf epsSq .xy (rotAbout .xy c0 s0)).IsUnit c s) :
    projectPose .xy ⟨rotAbout .xy c0 s0, ⟨x, y, 0⟩⟩ c s = ⟨rotAbout .xy c0 s0, ⟨x, y, 0⟩⟩ := by
  have hd : dirOf epsSq .xy (rotAbout .xy c0 s0) = ⟨c0 * c0, decide (c0 < 0), s0, false⟩ := by
    simp [dirOf, rotAbout, h0, heps]
    rw [Bool.eq_iff_iff]; simp only [decide_eq_true_eq]; exact decide_eq_true_iff
  rw [hd] at h
  obtain ⟨rfl, rfl⟩ := dir_unit_unique _ (mul_self_nonneg c0) h (isUnit_of_circle c0 s0 false h0)
  rfl

/-- **YZ**: likewise for every heading -/
theorem project_yz_fixes_planar (epsSq c0 s0 y z c s : K) (heps : epsSq < 1)
    (h0 : c0 * c0 + s0 * s0 = 1)
    (h : (dirOf epsSq .yz (rotAbout .yz c0 s0)).IsUnit c s) :
    projectPose .yz ⟨rotAbout .yz c0 s0, ⟨0, y, z⟩⟩ c s = ⟨rotAbout .yz c0 s0, ⟨0, y, z⟩⟩ := by
  have hd : dirOf epsSq .yz (rotAbout .yz c0 s0) = ⟨c0 * c0, decide (c0 < 0), s0, false⟩ := by
    simp [dirOf, rotAbout, heps]
    rw [Bool.eq_iff_iff]; simp only [decide_eq_true_eq]; exact decide_eq_true_iff
  rw [hd] at h
  obtain ⟨rfl, rfl⟩ := dir_unit_unique _ (mul_self_nonneg c0) h (isUnit_of_circle c0 s0 false h0)
  rfl

/-- what `project(XZ)` does to a planar pose with heading `(c₀, s₀)`: the new heading is
`(|c₀|, s₀)` — the middle `sxyz` Euler angle is confined to `[−π/2, π/2]` -/
theorem project_xz_planar_heading (epsSq c0 s0 c s : K) (h0 : c0 * c0 + s0 * s0 = 1)
    (h : (dirOf epsSq .xz (rotAbout .xz c0 s0)).IsUnit c s) : c = |c0| ∧ s = s0 := by
  have hd : dirOf epsSq .xz (rotAbout .xz c0 s0)
      = ⟨|c0| * |c0|, decide (|c0| < 0), s0, !decide (epsSq < c0 * c0 + 0 * 0)⟩ := by
    simp only [dirOf, rotAbout]
    have h1 : c0 * c0 + 0 * 0 = |c0| * |c0| := by rw [abs_mul_abs_self]; ring
    have h2 : decide (|c0| < 0) = false := by simp
    rw [h2, ← h1]; simp
  rw [hd] at h
  have h0' : |c0| * |c0| + s0 * s0 = 1 := by rw [abs_mul_abs_self]; exact h0
  exact dir_unit_unique _ (mul_self_nonneg |c0|) h (isUnit_of_circle |c0| s0 _ h0')

/-- **XZ, partial**: a planar pose whose heading has `cos ≥ 0` (`|θ| ≤ π/2`) is left unchanged.
Missing: headings beyond ±90°, where the statement is false (`project_xz_counterexample`). -/
theorem project_xz_fixes_planar_partial (epsSq c0 s0 x z c s : K)
    (h0 : c0 * c0 + s0 * s0 = 1) (hc : 0 ≤ c0)
    (h : (dirOf epsSq .xz (rotAbout .xz c0 s0)).IsUnit c s) :
    projectPose .xz ⟨rotAbout .xz c0 s0, ⟨x, 0, z⟩⟩ c s = ⟨rotAbout .xz c0 s0, ⟨x, 0, z⟩⟩ := by
  obtain ⟨rfl, rfl⟩ := project_xz_planar_heading epsSq c0 s0 c s h0 h
  rw [abs_of_nonneg hc]; rfl

/-- beyond ±90° the planar pose is **changed**: its heading `(c₀, s₀)`, `c₀ < 0`, becomes `(−c₀, s₀)` -/
theorem project_xz_changes_beyond_90 (epsSq c0 s0 x z c s : K)
    (h0 : c0 * c0 + s0 * s0 = 1) (hc : c0 < 0)
    (h : (dirOf epsSq .xz (rotAbout .xz c0 s0)).IsUnit c s) :
    projectPose .xz ⟨rotAbout .xz c0 s0, ⟨x, 0, z⟩⟩ c s = ⟨rotAbout .xz (-c0) s0, ⟨x, 0, z⟩⟩ ∧
    projectPose .xz ⟨rotAbout .xz c0 s0, ⟨x, 0, z⟩⟩ c s ≠ ⟨rotAbout .xz c0 s0, ⟨x, 0, z⟩⟩ := by
  obtain ⟨rfl, rfl⟩ := project_xz_planar_heading epsSq c0 s0 c s h0 h
  rw [abs_of_neg hc]
  refine ⟨rfl, ?_⟩
  intro e
  have := congrArg (fun q : Pose K => q.rot.a00) e
  simp only [projectPose, rotAbout] at this
  linarith

end ordered

/-! ### every heading `θ ∈ (−π, π]`, over ℝ, with `atan2 = Complex.arg` -/
section real
open Real

/-- **XY, all headings**: the planar pose with heading `θ` is unchanged, and the heading read
back by `atan2` from the certified direction is `θ` itself -/
theorem project_xy_fixes_planar_real (epsSq θ x y c s : ℝ) (heps : epsSq < 1)
    (h : (dirOf epsSq .xy (rotAbout .xy (cos θ) (sin θ))).IsUnit c s) :
    projectPose .xy ⟨rotAbout .xy (cos θ) (sin θ), ⟨x, y, 0⟩⟩ c s = ⟨rotAbout .xy (cos θ) (sin θ), ⟨x, y, 0⟩⟩ ∧
    (θ ∈ Set.Ioc (-π) π → atan2 s c = θ) := by
  have h0 : cos θ * cos θ + sin θ * sin θ = 1 := by nlinarith [Real.sin_sq_add_cos_sq θ]
  have hd : dirOf epsSq .xy (rotAbout .xy (cos θ) (sin θ)) = ⟨cos θ * cos θ, decide (cos θ < 0), sin θ, false⟩ := by
    simp [dirOf, rotAbout, h0, heps]
    rw [Bool.eq_iff_iff]; simp only [decide_eq_true_eq]; exact decide_eq_true_iff
  refine ⟨project_xy_fixes_planar epsSq _ _ x y c s heps h0 h, ?_⟩
  rw [hd] at h
  obtain ⟨rfl, rfl⟩ := dir_unit_unique _ (mul_self_nonneg _) h (isUnit_of_circle _ _ false h0)
  exact atan2_cos_sin θ

/-- **YZ, all headings** -/
theorem project_yz_fixes_planar_real (epsSq θ y z c s : ℝ) (heps : epsSq < 1)
    (h : (dirOf epsSq .yz (rotAbout .yz (cos θ) (sin θ))).IsUnit c s) :
    projectPose .yz ⟨rotAbout .yz (cos θ) (sin θ), ⟨0, y, z⟩⟩ c s = ⟨rotAbout .yz (cos θ) (sin θ), ⟨0, y, z⟩⟩ := by
  have h0 : cos θ * cos θ + sin θ * sin θ = 1 := by nlinarith [Real.sin_sq_add_cos_sq θ]
  exact project_yz_fixes_planar epsSq _ _ y z c s heps h0 h

/-- **XZ, partial**: headings with `|θ| ≤ π/2` are fixed -/
theorem project_xz_fixes_planar_real_partial (epsSq θ x z c s : ℝ) (hθ : |θ| ≤ π / 2)
    (h : (dirOf epsSq .xz (rotAbout .xz (cos θ) (sin θ))).IsUnit c s) :
    projectPose .xz ⟨rotAbout .xz (cos θ) (sin θ), ⟨x, 0, z⟩⟩ c s = ⟨rotAbout .xz (cos θ) (sin θ), ⟨x, 0, z⟩⟩ := by
  have h0 : cos θ * cos θ + sin θ * sin θ = 1 := by nlinarith [Real.sin_sq_add_cos_sq θ]
  have hc : 0 ≤ cos θ := by
    obtain ⟨h1, h2⟩ := abs_le.mp hθ
    exact Real.cos_nonneg_of_neg_pi_div_two_le_of_le h1 h2
  exact project_xz_fixes_planar_partial epsSq _ _ x z c s h0 hc h

/-- **F1 over ℝ**: a planar XZ pose with heading `θ ∈ (π/2, π]` comes back with heading `π − θ`
(mirrored at the z axis), e.g. `2π/3 ↦ π/3` -/
theorem project_xz_mirrors_beyond_90_real (epsSq θ c s : ℝ) (h1 : π / 2 < θ) (h2 : θ ≤ π)
    (h : (dirOf epsSq .xz (rotAbout .xz (cos θ) (sin θ))).IsUnit c s) :
    atan2 s c = π - θ ∧ π - θ ≠ θ := by
  have h0 : cos θ * cos θ + sin θ * sin θ = 1 := by nlinarith [Real.sin_sq_add_cos_sq θ]
  have hneg : cos θ < 0 := Real.cos_neg_of_pi_div_two_lt_of_lt h1 (by linarith [Real.pi_pos])
  obtain ⟨rfl, rfl⟩ := project_xz_planar_heading epsSq _ _ c s h0 h
  rw [abs_of_neg hneg, ← Real.cos_pi_sub, ← Real.sin_pi_sub]
  refine ⟨atan2_cos_sin (π - θ) ⟨by linarith [Real.pi_pos], by linarith [Real.pi_pos]⟩, ?_⟩
  intro e; linarith

/-- the instance quoted in the finding: heading 120° comes back as 60° -/
theorem project_xz_counterexample_real (epsSq c s : ℝ)
    (h : (dirOf epsSq .xz (rotAbout .xz (cos (2 * π / 3)) (sin (2 * π / 3)))).IsUnit c s) :
    atan2 s c = π / 3 := by
  have := (project_xz_mirrors_beyond_90_real epsSq (2 * π / 3) c s (by linarith [Real.pi_pos])
    (by linarith [Real.pi_pos]) h).1
  rw [this]; ring

/-- over ℝ the certified direction always **exists** (so the model is total): for every
direction with `xsq ≥ 0` whose sign flag is consistent there is a unit vector along it -/
theorem dir_unit_exists (d : Dir ℝ) (hx : 0 ≤ d.xsq) (hneg : d.xneg = true → 0 < d.xsq) :
    ∃ c s, d.IsUnit c s := by
  by_cases hN : d.xsq + d.y * d.y = 0
  · have hx0 : d.xsq = 0 := by nlinarith [mul_self_nonneg d.y]
    refine ⟨1, 0, by norm_num, by rw [hN, hx0]; ring, ?_, by simp, fun _ => ⟨rfl, rfl⟩⟩
    by_cases hn : d.xneg = true
    · have := hneg hn; rw [hx0] at this; exact absurd this (lt_irrefl 0)
    · simp [hn]
  · have hNpos : 0 < d.xsq + d.y * d.y := lt_of_le_of_ne (by nlinarith [mul_self_nonneg d.y]) (Ne.symm hN)
    set n := √(d.xsq + d.y * d.y) with hn
    have hnpos : 0 < n := Real.sqrt_pos.mpr hNpos
    have hnn : n * n = d.xsq + d.y * d.y := Real.mul_self_sqrt hNpos.le
    have hxx : √d.xsq * √d.xsq = d.xsq := Real.mul_self_sqrt hx
    by_cases hb : d.xneg = true
    · refine ⟨-(√d.xsq) / n, d.y / n, ?_, ?_, ?_, ?_, fun h => absurd h hN⟩
      · field_simp; nlinarith
      · field_simp; nlinarith
      · simp only [hb, if_true]
        exact div_nonpos_of_nonpos_of_nonneg (neg_nonpos.mpr (Real.sqrt_nonneg _)) hnpos.le
      · have : d.y / n * d.y = d.y * d.y / n := by ring
        rw [this]; exact div_nonneg (mul_self_nonneg _) hnpos.le
    · refine ⟨√d.xsq / n, d.y / n, ?_, ?_, ?_, ?_, fun h => absurd h hN⟩
      · field_simp; nlinarith
      · field_simp; nlinarith
      · simp only [hb]
        exact div_nonneg (Real.sqrt_nonneg _) hnpos.le
      · have : d.y / n * d.y = d.y * d.y / n := by ring
        rw [this]; exact div_nonneg (mul_self_nonneg _) hnpos.le

/-- `project` is total on valid inputs over ℝ: every matrix has a certified Euler direction -/
theorem project_direction_exists (epsSq : ℝ) (pl : Plane) (m : M3 ℝ) :
    ∃ c s, (dirOf epsSq pl m).IsUnit c s := by
  have sq : ∀ a : ℝ, (decide (a < 0) = true → 0 < a * a) := by
    intro a ha; simp only [decide_eq_true_eq] at ha; exact mul_pos_of_neg_of_neg ha ha
  apply dir_unit_exists
  · cases pl <;> simp only [dirOf] <;> (try split_ifs) <;>
      first | exact mul_self_nonneg _ | exact zero_le_one | (nlinarith [mul_self_nonneg m.a00, mul_self_nonneg m.a10])
  · cases pl <;> simp only [dirOf] <;> (try split_ifs) <;>
      first | exact sq _ | (intro h; exact absurd h (by simp))

end real

/-! ### finding F1, kernel-checked on a rational planar pose -/

/-- the pose at `(1, 0, 3)` in the XZ plane with heading `cos = −3/5`, `sin = 4/5` (≈ 126.87°) -/
def f1Pose : Pose ℚ := ⟨rotAbout .xz (-3/5) (4/5), ⟨1, 0, 3⟩⟩

/-- **F1**: `project(XZ)` is not the identity on the planar pose `f1Pose`: the (unique) certified
direction is `(3/5, 4/5)` (≈ 53.13°), so the result differs from the input. -/
theorem project_xz_counterexample :
    (dirOf epsSqRat .xz f1Pose.rot).IsUnit (3/5) (4/5) ∧
    (∀ c s : ℚ, (dirOf epsSqRat .xz f1Pose.rot).IsUnit c s →
      projectPose .xz f1Pose c s = ⟨rotAbout .xz (3/5) (4/5), ⟨1, 0, 3⟩⟩ ∧ projectPose .xz f1Pose c s ≠ f1Pose) := by
  have hu : (dirOf epsSqRat .xz f1Pose.rot).IsUnit (3/5) (4/5) := by decide +kernel
  refine ⟨hu, ?_⟩
  intro c s h
  have hx : 0 ≤ (dirOf epsSqRat .xz f1Pose.rot).xsq := by decide +kernel
  obtain ⟨rfl, rfl⟩ := dir_unit_unique _ hx h hu
  constructor <;> decide +kernel

/-! ### non-vacuity -/

example : ((3 : ℚ) / 5) * (3 / 5) + (4 / 5) * (4 / 5) = 1 := by norm_num
example : (dirOf epsSqRat .xy (rotAbout .xy (-3/5) (4/5))).IsUnit (-3/5) (4/5) := by decide +kernel
example : (dirOf epsSqRat .yz (rotAbout .yz (-3/5) (-4/5))).IsUnit (-3/5) (-4/5) := by decide +kernel
example : (dirOf epsSqRat .xz (rotAbout .xz (3/5) (-4/5))).IsUnit (3/5) (-4/5) := by decide +kernel
example : epsSqRat < 1 := by decide +kernel
-- a gimbal-lock attitude (pitch −90°): XY projects to heading 0, YZ uses the (M₁₁, −M₁₂) direction
example : (dirOf epsSqRat .xy (⟨0, 0, 1, 0, 1, 0, -1, 0, 0⟩ : M3 ℚ)) = ⟨1, false, 0, true⟩ := by decide +kernel
example : (dirOf epsSqRat .yz (⟨0, -4/5, 3/5, 0, 3/5, 4/5, -1, 0, 0⟩ : M3 ℚ)) = ⟨9/25, false, -4/5, true⟩ := by
  decide +kernel
example : AnglesOk epsSqRat .xz [f1Pose, Pose.one] [(3/5, 4/5), (1, 0)] := by
  refine ⟨by decide +kernel, by decide +kernel, trivial⟩
example : history ⟨[0], [Pose.one], false⟩ [.xy, .xz, .xy] = [true, false, false] := by decide +kernel

end Evo.C14
