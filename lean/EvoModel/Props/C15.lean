/-
C15 — evo_traj applies its options in the documented order and exports the result.
Property theorems about `Evo.TrajPlan` (model of `evo/main_traj.py: run` after fix 0088a59 and of
`PosePath3D.transform` after fix 91a1eaa) and about the option table regenerated from
`main_traj_parser.parser()` on every run (`Gen/TrajOptions.lean`).
The "documented order" is itself the specification; the theorem content is the option → step wiring
over the whole option lattice and the algebra of the inverted transformation.
-/
import EvoModel.Model.TrajPlan
import EvoModel.Model.TrajPipeline
import EvoModel.Gen.TrajOptions
import EvoModel.Lemmas.Lin
import Mathlib.Tactic.FieldSimp
namespace Evo.C15
open Evo Evo.TrajPlan

/-! ## order of the steps -/

theorem opt_rank_sublist (b : Bool) (k : Kind) : List.Sublist ((opt b k).map Kind.rank) [k.rank] := by
  cases b <;> simp [opt]

theorem mem_opt {b : Bool} {k x : Kind} : x ∈ opt b k ↔ b = true ∧ x = k := by
  cases b <;> simp [opt]

theorem plane_rank_sublist (p : Option Plane) : List.Sublist ((optPlane p).map Kind.rank) [9] := by
  cases p <;> simp [Kind.rank, optPlane]

theorem exports_rank_sublist (f : Flags) : List.Sublist ((exports f).map Kind.rank) [10, 11] := by
  unfold exports
  rw [List.map_append]
  exact (opt_rank_sublist _ _).append (opt_rank_sublist _ _)

/-- **documented order, step kinds**: whatever the options, the ranks of the steps applied to a
trajectory are strictly increasing in the order downsample(0) < motion filter(1) < merge(2) <
time offset(3) < association(4) < Umeyama alignment(5) < origin alignment(6) < left transformation(7) <
right transformation(8) < projection(9) < export(10, 11); each step occurs at most once. -/
theorem kinds_order (f : Flags) (l : List Kind) (h : kinds f = .ok l) :
    (l.map Kind.rank).Pairwise (· < ·) := by
  unfold kinds at h
  split at h
  · cases h
  · cases h
    have hs : [0, 1, 2, 3, 4, 5, 6, 7, 8, 9, 10, 11].Pairwise (· < ·) := by decide
    refine List.Pairwise.sublist ?_ hs
    simp only [List.map_append, List.append_assoc]
    exact (opt_rank_sublist _ .downsample).append <| (opt_rank_sublist _ .motionFilter).append <|
      (opt_rank_sublist _ .merge).append <| (opt_rank_sublist _ .tOffset).append <|
      (opt_rank_sublist _ .sync).append <| (opt_rank_sublist _ (.align _ _)).append <|
      (opt_rank_sublist _ .alignOrigin).append <| (opt_rank_sublist _ (.transform .left _ _ _)).append <|
      (opt_rank_sublist _ (.transform .right _ _ _)).append <|
      (plane_rank_sublist _).append (exports_rank_sublist f)

theorem rank_attach (o : TrajOpts) (k : Kind) : (attach o k).rank = k.rank := by
  cases k <;> first | rfl | (rename_i f _ _ _; cases f <;> rfl)

/-- **documented order** for the plan with values -/
theorem trajPlan_order (o : TrajOpts) (l : List Step) (h : trajPlan o = .ok l) :
    (l.map Step.rank).Pairwise (· < ·) := by
  unfold trajPlan at h
  split at h
  · cases h
  · next ks hk =>
    cases h
    have := kinds_order o.flags ks hk
    rw [List.map_map]
    have e : (Step.rank ∘ attach o) = Kind.rank := funext (rank_attach o)
    rw [e]; exact this

/-- the reference's steps are ordered the same way -/
theorem refPlan_order (o : TrajOpts) : ((refPlan o).map Step.rank).Pairwise (· < ·) := by
  unfold refPlan
  rw [List.map_map, show (Step.rank ∘ attach o) = Kind.rank from funext (rank_attach o)]
  unfold refKinds
  split
  · have hs : [0, 1, 9, 10, 11].Pairwise (· < ·) := by decide
    refine List.Pairwise.sublist ?_ hs
    simp only [List.map_append, List.append_assoc]
    exact (opt_rank_sublist _ .downsample).append <| (opt_rank_sublist _ .motionFilter).append <|
      (plane_rank_sublist _).append (exports_rank_sublist _)
  · simp

/-! ## which option produces which step -/

theorem mem_plane {p : Option Plane} {x : Kind} :
    x ∈ optPlane p ↔ ∃ q, p = some q ∧ x = .project q := by
  cases p <;> simp [optPlane]

/-- membership in the plan, one disjunct per step of `run` -/
theorem mem_kinds (f : Flags) (l : List Kind) (h : kinds f = .ok l) (x : Kind) :
    x ∈ l ↔
      (f.downsample = true ∧ x = .downsample) ∨ (f.motionFilter = true ∧ x = .motionFilter) ∨
      (f.merge = true ∧ x = .merge) ∨ (f.tOffset = true ∧ x = .tOffset) ∨
      ((f.synced && f.sub != .kitti) = true ∧ x = .sync) ∨
      ((f.synced && (f.align || f.correctScale)) = true ∧ x = .align f.correctScale (f.correctScale && !f.align)) ∨
      ((f.synced && f.alignOrigin) = true ∧ x = .alignOrigin) ∨
      (f.transformLeft = true ∧ x = .transform .left f.invert false f.propagate) ∨
      (f.transformRight = true ∧ x = .transform .right f.invert true f.propagate) ∨
      (∃ q, f.plane = some q ∧ x = .project q) ∨
      (f.saveTum = true ∧ x = .exportTum) ∨ (f.saveKitti = true ∧ x = .exportKitti) := by
  unfold kinds at h
  split at h
  · cases h
  · cases h
    simp only [List.mem_append, mem_opt, mem_plane, exports, or_assoc]

theorem synced_of_alignOrigin (f : Flags) (h : f.alignOrigin = true) : f.synced = true := by
  simp [Flags.synced, h]

theorem synced_of_align (f : Flags) (h : f.align = true ∨ f.correctScale = true) : f.synced = true := by
  rcases h with h | h <;> simp [Flags.synced, h]

/-- **each step is present exactly when its option is set** (and nothing dies) -/
theorem steps_present_iff (f : Flags) (l : List Kind) (h : kinds f = .ok l) :
    (Kind.downsample ∈ l ↔ f.downsample = true) ∧
    (Kind.motionFilter ∈ l ↔ f.motionFilter = true) ∧
    (Kind.merge ∈ l ↔ f.merge = true) ∧
    (Kind.tOffset ∈ l ↔ f.tOffset = true) ∧
    (Kind.sync ∈ l ↔ (f.synced = true ∧ f.sub ≠ .kitti)) ∧
    (Kind.alignOrigin ∈ l ↔ f.alignOrigin = true) ∧
    (∀ p, Kind.project p ∈ l ↔ f.plane = some p) ∧
    (Kind.exportTum ∈ l ↔ f.saveTum = true) ∧
    (Kind.exportKitti ∈ l ↔ f.saveKitti = true) := by
  have m := mem_kinds f l h
  refine ⟨?_, ?_, ?_, ?_, ?_, ?_, ?_, ?_, ?_⟩ <;> (try intro p) <;> rw [m] <;>
    simp only [reduceCtorEq, and_false, and_true, false_or, or_false, exists_false, Kind.project.injEq,
      Bool.and_eq_true, bne_iff_ne, ne_eq]
  · constructor
    · rintro ⟨_, h⟩; exact h
    · intro h; exact ⟨synced_of_alignOrigin f h, h⟩
  · constructor
    · rintro ⟨q, h1, h2⟩; rw [h2]; exact h1
    · intro h; exact ⟨p, h, rfl⟩

/-- **Umeyama alignment wiring**: the alignment step exists iff `--align` or `--correct_scale`;
`correct_scale` is the `-s` flag, and only the scale is corrected exactly when `-s` is given without
`-a` -/
theorem align_wiring (f : Flags) (l : List Kind) (h : kinds f = .ok l) (c s : Bool) :
    Kind.align c s ∈ l ↔ ((f.align = true ∨ f.correctScale = true) ∧ c = f.correctScale ∧
      s = (f.correctScale && !f.align)) := by
  rw [mem_kinds f l h]
  simp only [reduceCtorEq, and_false, false_or, or_false, exists_false, Kind.align.injEq, Bool.and_eq_true,
    Bool.or_eq_true]
  constructor
  · rintro ⟨⟨_, h1⟩, h2, h3⟩; exact ⟨h1, h2, h3⟩
  · rintro ⟨h1, h2, h3⟩; exact ⟨⟨synced_of_align f h1, h1⟩, h2, h3⟩

/-- **each transformation file is applied on its own side**: the file of `--transform_left` is
left-multiplied, the file of `--transform_right` right-multiplied (and only that one), each present
iff its option is given; `--invert_transform` selects the inversion and `--propagate_transform` the
propagation of both -/
theorem transform_right_selects_right_mul (f : Flags) (l : List Kind) (h : kinds f = .ok l)
    (file : TfFile) (inv r p : Bool) :
    Kind.transform file inv r p ∈ l ↔
      (((file = .left ∧ f.transformLeft = true ∧ r = false) ∨ (file = .right ∧ f.transformRight = true ∧ r = true)) ∧
        inv = f.invert ∧ p = f.propagate) := by
  rw [mem_kinds f l h]
  simp only [reduceCtorEq, and_false, false_or, or_false, exists_false, Kind.transform.injEq]
  constructor
  · rintro (⟨h0, h1, h2, h3, h4⟩ | ⟨h0, h1, h2, h3, h4⟩)
    · exact ⟨Or.inl ⟨h1, h0, h3⟩, h2, h4⟩
    · exact ⟨Or.inr ⟨h1, h0, h3⟩, h2, h4⟩
  · rintro ⟨(⟨h1, h0, h3⟩ | ⟨h1, h0, h3⟩), h2, h4⟩
    · exact Or.inl ⟨h0, h1, h2, h3, h4⟩
    · exact Or.inr ⟨h0, h1, h2, h3, h4⟩

/-- with both options the left file comes first: `L · P · R` -/
theorem both_transforms_left_then_right (f : Flags) (l : List Kind) (h : kinds f = .ok l)
    (hl : f.transformLeft = true) (hr : f.transformRight = true) :
    List.Sublist [Kind.transform .left f.invert false f.propagate, Kind.transform .right f.invert true f.propagate] l := by
  unfold kinds at h
  split at h
  · cases h
  · cases h
    simp only [hl, hr, opt, if_true, List.append_assoc]
    refine List.Sublist.trans ?_ (List.sublist_append_of_sublist_right (List.sublist_append_of_sublist_right
      (List.sublist_append_of_sublist_right (List.sublist_append_of_sublist_right (List.sublist_append_of_sublist_right
      (List.sublist_append_of_sublist_right (List.sublist_append_of_sublist_right (List.Sublist.refl _))))))))
    simp

/-- **finding F13 (code before fix 20269c0)**: with both options the old single step takes the *left*
file and multiplies it on the *right* (and never uses the right file); the repaired plan has the two
steps, each on its own side -/
theorem both_flags_counterexample_prefix (f : Flags) (hl : f.transformLeft = true) (hr : f.transformRight = true) :
    transformStepOld f = [.transform .left f.invert true f.propagate] ∧
    transformSteps f = [.transform .left f.invert false f.propagate, .transform .right f.invert true f.propagate] := by
  simp [transformStepOld, transformSteps, opt, hl, hr]

/-- the time offset value, the down-sampling size, the filter thresholds, `t_max_diff` and
`n_to_align` reach the step they belong to -/
theorem values_wiring (o : TrajOpts) :
    attach o .tOffset = .tOffset o.tOffset ∧ attach o .downsample = .downsample o.downsample ∧
    attach o .motionFilter = .motionFilter o.mfDistance o.mfAngleDeg ∧ attach o .sync = .sync o.tMaxDiff ∧
    ∀ c s, attach o (.align c s) = .align c s o.nToAlign := ⟨rfl, rfl, rfl, rfl, fun _ _ => rfl⟩

/-! ## the reference -/

/-- **the reference is only down-sampled, filtered, projected (and exported)**: never offset,
associated, aligned or transformed -/
theorem refPlan_only_downsample_filter_project (o : TrajOpts) :
    ∀ s ∈ refPlan o, (s = .downsample o.downsample ∧ o.flags.downsample = true) ∨
      (s = .motionFilter o.mfDistance o.mfAngleDeg ∧ o.flags.motionFilter = true) ∨
      (∃ p, s = .project p ∧ o.flags.plane = some p) ∨
      (s = .exportTum ∧ o.flags.saveTum = true) ∨ (s = .exportKitti ∧ o.flags.saveKitti = true) := by
  intro s hs
  unfold refPlan refKinds at hs
  split at hs
  · rw [List.mem_map] at hs
    obtain ⟨k, hk, rfl⟩ := hs
    simp only [List.mem_append, mem_opt, mem_plane, exports] at hk
    rcases hk with ((⟨h, rfl⟩ | ⟨h, rfl⟩) | ⟨p, hp, rfl⟩) | (⟨h, rfl⟩ | ⟨h, rfl⟩)
    · exact Or.inl ⟨rfl, h⟩
    · exact Or.inr (Or.inl ⟨rfl, h⟩)
    · exact Or.inr (Or.inr (Or.inl ⟨p, rfl, hp⟩))
    · exact Or.inr (Or.inr (Or.inr (Or.inl ⟨rfl, h⟩)))
    · exact Or.inr (Or.inr (Or.inr (Or.inr ⟨rfl, h⟩)))
  · simp at hs

/-- in particular the time offset is never applied to the reference -/
theorem tOffset_not_on_reference (o : TrajOpts) (dt : Rat) : Step.tOffset dt ∉ refPlan o := by
  intro h
  rcases refPlan_only_downsample_filter_project o _ h with h | h | ⟨p, h, _⟩ | h | h <;> simp at h

/-- …and the reference *is* down-sampled / filtered / projected whenever the trajectories are -/
theorem refPlan_present_iff (f : Flags) (hr : f.ref = true) :
    (Kind.downsample ∈ refKinds f ↔ f.downsample = true) ∧
    (Kind.motionFilter ∈ refKinds f ↔ f.motionFilter = true) ∧
    (∀ p, Kind.project p ∈ refKinds f ↔ f.plane = some p) := by
  unfold refKinds
  rw [if_pos hr]
  refine ⟨?_, ?_, ?_⟩ <;> (try intro p) <;>
    simp only [List.mem_append, mem_opt, mem_plane, exports, reduceCtorEq, and_false, and_true, false_or,
      or_false, exists_false, Kind.project.injEq]
  constructor
  · rintro ⟨q, h1, h2⟩; rw [h2]; exact h1
  · intro h; exact ⟨p, h, rfl⟩

/-! ## no processing option -/

/-- closed form of `trajPlan_no_options_is_identity` -/
theorem no_options_kinds (f : Flags) (h : f.noProcessing = true) :
    (kinds f = .ok (exports f) ∨ kinds f = .error .tumWithoutStamps) ∧
    refKinds f = (if f.ref then exports f else []) := by
  obtain ⟨sub, ref, noTraj, ds, mf, mg, toff, nta, sy, al, cs, ao, tl, tr, inv, pr, pl, st, sk⟩ := f
  simp only [Flags.noProcessing, Bool.and_eq_true, Bool.not_eq_true', Option.isNone_iff_eq_none] at h
  obtain ⟨⟨⟨⟨⟨⟨⟨⟨⟨⟨⟨h1, h2⟩, h3⟩, h4⟩, h5⟩, h6⟩, h7⟩, h8⟩, h9⟩, h10⟩, h11⟩, h12⟩ := h
  subst h1 h2 h3 h4 h5 h6 h7 h8 h9 h10 h11 h12
  cases sub <;> cases ref <;> cases noTraj <;> cases inv <;> cases pr <;> cases st <;> cases sk <;> decide

/-- **without processing options nothing but the export happens** (with C06: exported = input);
the only way to die then is `--save_as_tum` on KITTI input, which has no timestamps -/
theorem trajPlan_no_options_is_identity (f : Flags) (h : f.noProcessing = true) :
    (∀ l, kinds f = .ok l → l = exports f) ∧ (∀ d, kinds f = .error d → d = .tumWithoutStamps) ∧
    refKinds f = (if f.ref then exports f else []) := by
  obtain ⟨hk, hr⟩ := no_options_kinds f h
  refine ⟨?_, ?_, hr⟩
  · intro l hl
    rcases hk with hk | hk <;> rw [hk] at hl <;> cases hl; rfl
  · intro d hd
    rcases hk with hk | hk <;> rw [hk] at hd <;> cases hd; rfl

/-! ## `transform()`: left / right / propagated -/

/-- right-multiplication multiplies every pose by `T` on the right, left-multiplication on the left -/
theorem applyTransform_get (T : Pose Rat) (hT : isSe3Tol T = true) (s : Rat) (poses : List (Pose Rat)) (k : Nat) :
    (applyTransform T true false s poses)[k]? = poses[k]?.map (fun p => p.mul T) ∧
    (applyTransform T false false s poses)[k]? = poses[k]?.map (fun p => T.mul p) := by
  unfold applyTransform
  simp [hT]

/-- **propagation only has an effect together with right-multiplication** -/
theorem propagate_only_with_right (T : Pose Rat) (s : Rat) (poses : List (Pose Rat)) :
    applyTransform T false true s poses = applyTransform T false false s poses := by
  unfold applyTransform; simp

/-- propagated right-multiplication: the first pose is kept, every later pose is the previous *new*
pose times (old relative motion · T) -/
theorem propagateRight_step (T p q : Pose Rat) (r : List (Pose Rat)) :
    propagateRight T (p :: q :: r) = p :: propagateGo T p (p :: q :: r) ∧
    propagateGo T p (p :: q :: r) = p.mul ((p.rel q).mul T) :: propagateGo T (p.mul ((p.rel q).mul T)) (q :: r) :=
  ⟨rfl, rfl⟩

/-! ## `--invert_transform` -/

theorem isSe3Tol_of_rot (T : Pose Rat) (h : IsRot T.rot) : isSe3Tol T = true := by
  obtain ⟨ho, hd⟩ := h
  unfold IsOrtho at ho
  unfold isSe3Tol isSo3Tol
  rw [ho, hd]
  decide +kernel

/-- **an inverted SE(3) transformation is the true inverse** -/
theorem invert_is_true_inverse_se3 (T : Pose Rat) (h : IsRot T.rot) (s : Rat) :
    (invertTransform T s).mul T = Pose.one ∧ T.mul (invertTransform T s) = Pose.one := by
  unfold invertTransform
  rw [if_pos (isSe3Tol_of_rot T h)]
  exact ⟨Pose.inv_mul_self h.1, Pose.mul_inv_self h.1⟩

theorem sim3Inv_sim3 (R : M3 Rat) (t : V3 Rat) (s : Rat) (hs : s ≠ 0) :
    (Pose.sim3 R t s).sim3Inv s = ⟨M3.smul (1 / s) R.transpose, V3.neg (M3.mulVec (M3.smul (1 / s) R.transpose) t)⟩ := by
  ext <;> lin_unfold <;> field_simp

/-- **an inverted Sim(3) transformation is the true inverse** whenever `is_se3` does not mistake
it for SE(3) (i.e. its scale differs from 1 by more than the 1e-6 tolerance) -/
theorem invert_is_true_inverse_sim3 (R : M3 Rat) (t : V3 Rat) (s : Rat) (hR : IsOrtho R) (hs : s ≠ 0)
    (h : isSe3Tol (Pose.sim3 R t s) = false) :
    (invertTransform (Pose.sim3 R t s) s).mul (Pose.sim3 R t s) = Pose.one ∧
    (Pose.sim3 R t s).mul (invertTransform (Pose.sim3 R t s) s) = Pose.one := by
  unfold invertTransform
  rw [if_neg (by simp [h]), sim3Inv_sim3 R t s hs]
  have e1 : M3.mul (M3.smul (1 / s) R.transpose) (M3.smul s R) = R.transpose.mul R := by
    ext <;> lin_unfold <;> field_simp
  have e2 : M3.mul (M3.smul s R) (M3.smul (1 / s) R.transpose) = R.mul R.transpose := by
    ext <;> lin_unfold <;> field_simp
  have hR' := hR.mul_transpose
  unfold IsOrtho at hR
  constructor
  · ext1
    · simp only [Pose.mul, Pose.sim3, Pose.one]; rw [e1, hR]
    · simp only [Pose.mul, Pose.sim3, Pose.one]; ext <;> lin_unfold <;> ring
  · ext1
    · simp only [Pose.mul, Pose.sim3, Pose.one]; rw [e2, hR']
    · simp only [Pose.mul, Pose.sim3, Pose.one]
      have e3 : M3.mulVec (M3.smul s R) (V3.neg (M3.mulVec (M3.smul (1 / s) R.transpose) t))
          = V3.neg (M3.mulVec (R.mul R.transpose) t) := by
        ext <;> lin_unfold <;> field_simp <;> ring
      rw [e3, hR']
      ext <;> lin_unfold <;> ring

/-- **`--invert_transform` yields the true inverse of the loaded SE(3) or Sim(3) matrix**:
for `T = [sR t; 0 1]` with `R` a rotation and `s ≠ 0`, exactly rigid (`s = 1`) or recognised as
non-rigid by `is_se3` -/
theorem invert_is_true_inverse (R : M3 Rat) (t : V3 Rat) (s : Rat) (hR : IsRot R) (hs : s ≠ 0)
    (h : s = 1 ∨ isSe3Tol (Pose.sim3 R t s) = false) :
    (invertTransform (Pose.sim3 R t s) s).mul (Pose.sim3 R t s) = Pose.one ∧
    (Pose.sim3 R t s).mul (invertTransform (Pose.sim3 R t s) s) = Pose.one := by
  rcases h with rfl | h
  · have e : Pose.sim3 R t 1 = ⟨R, t⟩ := by ext <;> lin_unfold <;> ring
    rw [e]
    exact invert_is_true_inverse_se3 ⟨R, t⟩ hR 1
  · exact invert_is_true_inverse_sim3 R t s hR.1 hs h

/-- the Sim(3) transformation of finding F6: scale 2, identity rotation, no translation -/
def T2 : Pose Rat := Pose.sim3 M3.one V3.zero 2

/-- **finding F6 (code before fix 0088a59)**: `se3_inverse` of a Sim(3) matrix with scale 2 times
the matrix is `diag(4,4,4,1)`, not the identity -/
theorem invert_sim3_counterexample_prefix :
    (invertTransformOld T2).mul T2 = ⟨⟨4, 0, 0, 0, 4, 0, 0, 0, 4⟩, V3.zero⟩ ∧
    (invertTransformOld T2).mul T2 ≠ Pose.one := by decide +kernel

/-- the repaired code inverts it correctly -/
theorem invert_sim3_repaired : (invertTransform T2 2).mul T2 = Pose.one ∧ isSe3Tol T2 = false := by
  decide +kernel

/-! ## running the plan: evo_traj = the documented pipeline -/

section pipeline
open Evo.TrajPipeline
variable {σ : Type}

theorem runSteps_append (step : Step → σ → Except PErr σ) (a b : List Step) :
    runSteps step (a ++ b) = fun s => andThen (runSteps step a s) (runSteps step b) := by
  funext s
  induction a generalizing s with
  | nil => rfl
  | cons k r ih =>
    simp only [List.cons_append, runSteps]
    cases step k s with
    | error e => rfl
    | ok s' => exact ih s'

theorem runSteps_opt (step : Step → σ → Except PErr σ) (o : TrajOpts) (b : Bool) (k : Kind) :
    runSteps step ((opt b k).map (attach o)) = stage step b (attach o k) := by
  funext s
  cases b
  · rfl
  · simp only [opt, stage, if_true, List.map, runSteps]
    cases step (attach o k) s <;> rfl

theorem runSteps_optPlane (step : Step → σ → Except PErr σ) (o : TrajOpts) (p : Option TrajPlan.Plane) :
    runSteps step ((optPlane p).map (attach o)) = stagePlane step p := by
  funext s
  cases p with
  | none => rfl
  | some q =>
    simp only [optPlane, stagePlane, List.map, runSteps, attach]
    cases step (.project q) s <;> rfl

/-- **executing the plan is the documented pipeline** — for every step semantics `step`, every option
set for which `run` does not die, and every start state: running the plan step by step equals the
composition "down-sampling, then motion filter, then merge, then time offset, then association, then
Umeyama alignment, then origin alignment, then the (inverted / right-multiplied / propagated)
transformation, then projection, then export", each stage present iff its option is set and fed with
its own argument. -/
theorem runSteps_is_documented_pipeline (step : Step → σ → Except PErr σ) (o : TrajOpts) (l : List Step)
    (h : trajPlan o = .ok l) (s : σ) : runSteps step l s = documentedPipeline step o s := by
  unfold trajPlan at h
  split at h
  · cases h
  · next ks hk =>
    cases h
    unfold kinds at hk
    split at hk
    · cases hk
    · cases hk
      simp only [List.map_append, List.append_assoc, exports, runSteps_append, runSteps_opt, runSteps_optPlane]
      rfl

/-- the reference: down-sampling, motion filter, projection, export — nothing else -/
theorem refSteps_is_documented (step : Step → σ → Except PErr σ) (o : TrajOpts) (s : σ) :
    runSteps step (refPlan o) s = documentedRef step o s := by
  unfold refPlan refKinds documentedRef
  by_cases hr : o.flags.ref = true
  · simp only [hr, ↓reduceIte, List.map_append, List.append_assoc, exports, runSteps_append, runSteps_opt,
      runSteps_optPlane]
    rfl
  · simp [hr, runSteps]

end pipeline

open Evo.TrajPipeline in
/-- **`trajRun` (evo_traj on rational inputs) is the documented pipeline**: when `run` does not die,
the exported trajectories are the inputs processed by `documentedPipeline` with the step semantics
`stepRun` — `Select.downsample`, `Select.motionFilter`, stamp-ordered merge, float offset,
`Sync.associateIds` against the (down-sampled, filtered, *not* offset) reference, `Align.alignApply` with
the certified Umeyama triple, `Align.alignOrigin`, `applyTransform` of the loaded / `invertTransform`ed
matrix on the selected side, `Project.projectPoses` — and the exported reference is the reference
processed by `documentedRef` only.  Parameters (from evo's run, see `Cert`): motion-filter lengths and
angles, Umeyama triple, `sim3_scale`, projected headings. -/
theorem trajRun_is_documented_pipeline (o : TrajOpts) (inp : Inputs) (plan : List Step)
    (hp : trajPlan o = .ok plan) (refPre : Option Traj) (hr : refBeforeSync o inp = .ok refPre) :
    trajRun o inp =
      match documentedPipeline (stepRun (envOf inp refPre)) o ⟨inp.trajs.map (fun t => ⟨t, none⟩), false⟩ with
      | .error e => .error (.inr e)
      | .ok st =>
        match inp.ref with
        | none => .ok (st.items.map (·.traj), none)
        | some r =>
          match documentedRef (refStep inp.refCert) o r with
          | .error e => .error (.inr e)
          | .ok r' => .ok (st.items.map (·.traj), some r') := by
  unfold trajRun
  simp only [hp, hr]
  rw [runSteps_is_documented_pipeline _ o plan hp]
  cases documentedPipeline (stepRun (envOf inp refPre)) o ⟨inp.trajs.map (fun t => ⟨t, none⟩), false⟩ with
  | error e => rfl
  | ok st =>
    cases hrf : inp.ref with
    | none => rfl
    | some r =>
      simp only [refSteps_is_documented]
      rfl

open Evo.TrajPipeline in
/-- when `run` dies nothing is computed or exported -/
theorem trajRun_dies (o : TrajOpts) (inp : Inputs) (d : Die) (h : trajPlan o = .error d) :
    trajRun o inp = .error (.inl d) := by
  unfold trajRun; simp only [h]

open Evo.TrajPipeline in
/-- which model executes which step (definitional unfoldings, recorded so that the step theorems of
C04 / C05 / C11 / C14 and the transform theorems above apply to the stages of the pipeline) -/
theorem stepRun_unfold (env : Env) (st : St) :
    (∀ md, stepRun env (.sync md) st = onItems env st (fun _ it => syncItem env md it)) ∧
    (∀ cs only n, stepRun env (.align cs only n) st = onItems env st (fun c it => alignItem c cs only it)) ∧
    (∀ f i r p, stepRun env (.transform f i r p) st = onItems env st (fun _ it => transformItem env f i r p it)) ∧
    stepRun env .exportTum st = .ok st ∧ stepRun env .exportKitti st = .ok st :=
  ⟨fun _ => rfl, fun _ _ _ => rfl, fun _ _ _ _ => rfl, rfl, rfl⟩

/-! ## the option table of `main_traj_parser` (translator T) -/

/-- the options the model reads exist in the parser of the tree under test with the action, type,
default and choices the model assumes (flags are `store_true` with default `False`; `--t_offset`
defaults to `0.0`, `--n_to_align` to `-1`, `--t_max_diff` to `0.01`; paths and `--downsample`,
`--motion_filter`, `--project_to_plane` default to `None`) -/
theorem options_table_matches_model :
    (∀ row ∈ expectedOptions, row ∈ Gen.TrajOptions.options) ∧ Gen.TrajOptions.sharedOptionsSame = true := by
  decide

/-- `--align` and `--align_origin` are mutually exclusive in the parser (the model's `Die.parser`) -/
theorem align_alignOrigin_mutually_exclusive :
    ["align", "align_origin"] ∈ Gen.TrajOptions.mutexGroups := by decide

/-- the three file subcommands exist and take one or more files -/
theorem subcommands_present :
    ("tum", "traj_files", "+") ∈ Gen.TrajOptions.subcommands ∧
    ("kitti", "pose_files", "+") ∈ Gen.TrajOptions.subcommands ∧
    ("euroc", "state_gt_csv", "+") ∈ Gen.TrajOptions.subcommands := by decide

/-! ## non-vacuity -/

/-- a rich option set: everything except merge / align_origin -/
def fAll : Flags :=
  { sub := .tum, ref := true, noTraj := false, downsample := true, motionFilter := true, merge := false,
    tOffset := true, nToAlign := true, sync := true, align := true, correctScale := true, alignOrigin := false,
    transformLeft := false, transformRight := true, invert := true, propagate := true, plane := some .xy,
    saveTum := true, saveKitti := true }

example : kinds fAll = .ok [.downsample, .motionFilter, .tOffset, .sync, .align true false,
    .transform .right true true true, .project .xy, .exportTum, .exportKitti] := by decide
example : refKinds fAll = [.downsample, .motionFilter, .project .xy, .exportTum, .exportKitti] := by decide
example : kinds { fAll with ref := false } = .error .noReference := by decide
example : kinds { fAll with align := false, correctScale := false } = .error .nToAlignUseless := by decide
example : kinds { fAll with sub := .kitti } = .error .offsetWithoutStamps := by decide
example : kinds { fAll with merge := true, sub := .kitti } = .error .mergeKitti := by decide
example : kinds { fAll with align := false } = .ok [.downsample, .motionFilter, .tOffset, .sync,
    .align true true, .transform .right true true true, .project .xy, .exportTum, .exportKitti] := by decide
/-- a flag set without processing options, exporting both formats -/
def fNone : Flags :=
  { sub := .tum, ref := false, noTraj := false, downsample := false, motionFilter := false, merge := false,
    tOffset := false, nToAlign := false, sync := false, align := false, correctScale := false,
    alignOrigin := false, transformLeft := false, transformRight := false, invert := false, propagate := false,
    plane := none, saveTum := true, saveKitti := true }
example : fNone.noProcessing = true ∧ kinds fNone = .ok [.exportTum, .exportKitti] := by decide
/-- a rotation by 90° about z with translation (1,2,3): hypotheses of the inverse theorems hold -/
def Rz : M3 Rat := ⟨0, -1, 0, 1, 0, 0, 0, 0, 1⟩
example : IsRot Rz := by
  constructor
  · show Rz.transpose.mul Rz = M3.one
    decide +kernel
  · show Rz.det = 1
    decide +kernel
example : isSe3Tol (Pose.sim3 Rz ⟨1, 2, 3⟩ (1 / 2)) = false := by decide +kernel
example : (invertTransform (Pose.sim3 Rz ⟨1, 2, 3⟩ (1 / 2)) (1 / 2)).mul (Pose.sim3 Rz ⟨1, 2, 3⟩ (1 / 2)) = Pose.one := by
  decide +kernel
/-- within the 1e-6 tolerance `is_se3` accepts a scale of 1 + 10⁻⁶: `se3_inverse` is then used and the
product misses the identity by about 2·10⁻⁶ (inside evo's own tolerance convention; hence the
hypothesis of `invert_is_true_inverse`) -/
example : isSe3Tol (Pose.sim3 M3.one V3.zero (1000001 / 1000000)) = true ∧
    (invertTransform (Pose.sim3 M3.one V3.zero (1000001 / 1000000)) (1000001 / 1000000)).mul
      (Pose.sim3 M3.one V3.zero (1000001 / 1000000)) ≠ Pose.one := by decide +kernel

end Evo.C15
