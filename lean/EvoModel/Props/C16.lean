/-
C16 — computations do not modify their inputs; derived objects are independent.

Property theorems about `Evo.Heap` (`Model/Heap.lean`): trajectory objects own arrays (cells);
every method is *local* (writes only arrays the object reaches or new ones); separation of two
objects is preserved by every operation history on either and implies that the other one shows
exactly what it showed before; deep copies, associated trajectories, merged trajectories and the
parts returned by the repaired splitters (fix fa25a82) are made of new arrays only, hence separated
from their sources and from every other existing object.  The pre-fix splitters are kept as a
counterexample.  Helper lemmas: `Lemmas/Heap.lean`.
The first sentence of the property (metrics, file writers, … leave their arguments bit-for-bit
unchanged) is a frame condition checked by snapshots in `harness/props/C16.py`, not proved here.
-/
import EvoModel.Lemmas.Heap
namespace Evo.C16
open Evo Evo.Traj Evo.Heap

/-- every method (transform / scale / reduce_to_ids / project / the lazy reads) is local -/
theorem ops_are_local (h : Heap) (o : Obj) (ops : List HOp) :
    Local h o (hrun h o ops).1 (hrun h o ops).2 := hrun_local h o ops

/-- **separation is preserved**: whatever history runs on `o`, it stays separated from `b`
(and `b` stays well-formed) -/
theorem sep_preserved_by_ops (h : Heap) (o b : Obj) (ops : List HOp) (wb : Wf h b) (s : Sep o b) :
    Sep (hrun h o ops).2 b ∧ Wf (hrun h o ops).1 b :=
  let r := (hrun_local h o ops).noninterference wb s
  ⟨r.2.1, r.2.2⟩

/-- **separation implies non-interference**: any operation history on one object — including the
in-place `project` — leaves every array reachable from a separated object, hence every view of
it, unchanged -/
theorem sep_implies_noninterference (h : Heap) (o b : Obj) (ops : List HOp) (wb : Wf h b) (s : Sep o b) :
    view (hrun h o ops).1 b = view h b :=
  ((hrun_local h o ops).noninterference wb s).1

/-- the values seen through a separated object are unchanged as well (positions, rotations,
matrices, as the lazy properties would compute them) -/
theorem noninterference_values (h : Heap) (o b : Obj) (ops : List HOp) (wb : Wf h b) (s : Sep o b) :
    ∀ a ∈ b.reach, (hrun h o ops).1.get a = h.get a := by
  intro a ha
  exact (hrun_local h o ops).frame a (wb a ha) (fun hm => s a hm ha)

/-- **derivations are fresh**: a deep copy, an output of `associate_trajectories`, and the result of
`trajectory.merge` consist of arrays allocated by the call; the call itself writes no existing array -/
theorem derive_fresh (h : Heap) (o : Obj) (ids : List Nat) (os : List Obj) :
    (Ext h (deepcopy h o).1 ∧ FreshSince h (deepcopy h o).2) ∧
    (Ext h (associateOne h o ids).1 ∧ FreshSince h (associateOne h o ids).2) ∧
    (Ext h (merge h os).1 ∧ FreshSince h (merge h os).2.2) :=
  ⟨⟨(deepcopy_spec h o).1, fun a ha => ((deepcopy_spec h o).2 a ha).1⟩, associateOne_spec h o ids, merge_spec h os⟩

/-- **derived objects are separated from their sources** (and from any other existing object `x`) -/
theorem derive_fresh_sep (h : Heap) (o x : Obj) (ids : List Nat) (os : List Obj) (wx : Wf h x) :
    Sep (deepcopy h o).2 x ∧ Sep (associateOne h o ids).2 x ∧ Sep (merge h os).2.2 x := by
  obtain ⟨d, a, m⟩ := derive_fresh h o ids os
  exact ⟨(d.2.sep wx).1, (a.2.sep wx).1, (m.2.sep wx).1⟩

/-- derive `B` from `A` (copy / associate), mutate `B` by any history: `A` shows what it showed -/
theorem derived_then_mutated_leaves_source (h : Heap) (a : Obj) (ids : List Nat) (ops : List HOp) (wa : Wf h a) :
    view (hrun (deepcopy h a).1 (deepcopy h a).2 ops).1 a = view h a ∧
    view (hrun (associateOne h a ids).1 (associateOne h a ids).2 ops).1 a = view h a := by
  obtain ⟨d, as, _⟩ := derive_fresh h a ids []
  constructor
  · rw [sep_implies_noninterference _ _ a ops (d.1.wf wa) (d.2.sep wa).1, d.1.view wa]
  · rw [sep_implies_noninterference _ _ a ops (as.1.wf wa) (as.2.sep wa).1, as.1.view wa]

/-- merging reads its inputs (their position/quaternion caches may get filled) but writes none of
their arrays, and whatever is done to the merged trajectory afterwards leaves the inputs unchanged -/
theorem merge_then_mutated_leaves_inputs (h : Heap) (os : List Obj) (x : Obj) (ops : List HOp) (wx : Wf h x) :
    view (hrun (merge h os).1 (merge h os).2.2 ops).1 x = view h x := by
  obtain ⟨e, f⟩ := merge_spec h os
  rw [sep_implies_noninterference _ _ x ops (e.wf wx) (f.sep wx).1, e.view wx]

/-- **`align_origin` / `align`**: the reference trajectory is only read; afterwards the aligned trajectory and the
reference are still separated, so any later history on the aligned one (including `project`) leaves the reference
unchanged -/
theorem align_keeps_reference (h : Heap) (est ref : Obj) (rd ops later : List HOp)
    (we : Wf h est) (wr : Wf h ref) (s : Sep est ref) :
    let r := alignWith h est ref rd ops
    view (hrun r.1 r.2.1 later).1 r.2.2 = view (hrun h ref rd).1 (hrun h ref rd).2 := by
  intro r
  obtain ⟨s1, w1, v1⟩ := alignWith_spec h est ref rd ops we wr s
  rw [sep_implies_noninterference _ _ _ later w1 s1, v1]

/-- **`merge_results`** deep-copies the first result: every trajectory of the merged result consists of new arrays, so
operating on it leaves every existing object (in particular the inputs' trajectories) unchanged -/
theorem merge_results_fresh_sep (h : Heap) (os : List Obj) (x : Obj) (wx : Wf h x) :
    Ext h (deepcopyList h os).1 ∧
    ∀ c ∈ (deepcopyList h os).2, Sep c x ∧ ∀ ops, view (hrun (deepcopyList h os).1 c ops).1 x = view h x := by
  obtain ⟨e, f⟩ := deepcopyList_spec h os
  refine ⟨e, fun c hc => ⟨((f c hc).sep wx).1, fun ops => ?_⟩⟩
  rw [sep_implies_noninterference _ _ x ops (e.wf wx) ((f c hc).sep wx).1, e.view wx]

/-- **the repaired splitters**: the call writes no existing array, every part consists of new
arrays only (so it is separated from the parent and from every other object), and any history
on a part leaves the parent's arrays unchanged -/
theorem split_fresh_sep (h : Heap) (o : Obj) (cut : Bool) (bounds : List Nat) (wo : Wf h o) :
    Ext h (splitNew h o cut bounds).1 ∧
    (∀ p ∈ (splitNew h o cut bounds).2.2, Sep p o ∧
      ∀ ops, view (hrun (splitNew h o cut bounds).1 p ops).1 o = view h o) := by
  obtain ⟨e, f, _⟩ := splitNew_spec h o cut bounds
  refine ⟨e, fun p hp => ⟨((f p hp).sep wo).1, fun ops => ?_⟩⟩
  rw [sep_implies_noninterference _ _ o ops (e.wf wo) ((f p hp).sep wo).1, e.view wo]

/-- **size boundary**: the early-out of every splitter (fewer than two poses; nothing to cut) returns exactly one part,
a deep copy: it consists of new arrays only, the source is not even read into a cache, and whatever is done to the
part leaves the source unchanged.  (Before the fix this branch returned the source object itself:
`split_nocut_returns_parent`.) -/
theorem split_single_pose_fresh (h : Heap) (o : Obj) (bounds : List Nat) (wo : Wf h o) :
    (splitNew h o false bounds).2.2 = [(deepcopy h o).2] ∧
    (splitNew h o false bounds).2.1 = o ∧
    FreshSince h (deepcopy h o).2 ∧
    ∀ ops, view (hrun (deepcopy h o).1 (deepcopy h o).2 ops).1 o = view h o := by
  refine ⟨by simp [splitNew], by simp [splitNew], fun a ha => ((deepcopy_spec h o).2 a ha).1, fun ops => ?_⟩
  exact (derived_then_mutated_leaves_source h o [] ops wo).1

/-- after a split the parent (possibly with its matrix cache filled) still reaches only arrays it
reached before or new ones, none of which belongs to a part -/
theorem split_parent_sep_parts (h : Heap) (o : Obj) (cut : Bool) (bounds : List Nat) :
    Local h o (splitNew h o cut bounds).1 (splitNew h o cut bounds).2.1 :=
  (splitNew_spec h o cut bounds).2.2

/-! ### the pre-fix splitters (finding F2): shared arrays, and what follows -/

def rz : M3 Rat := ⟨0, -1, 0, 1, 0, 0, 0, 0, 1⟩
def q1 : P := ⟨rz, ⟨1, 2, 3⟩⟩
def q2 : P := ⟨M3.one, ⟨4, 5, 6⟩⟩
def q3 : P := ⟨rz, ⟨20, 20, 7⟩⟩
/-- a three-pose trajectory built from matrices, stamps 0 1 2 -/
def parent0 : Heap × Obj := newSe3 Heap.empty [q1, q2, q3] (some [0, 1, 2])

/-- pre-fix: the first part of a split at index 2 holds the parent's own matrix arrays -/
theorem split_shares_cells :
    let r := splitOld parent0.1 parent0.2 true [0, 2, 3]
    (r.2.2.map (fun p => sharesB p r.2.1)) = [true, true] := by decide +kernel

/-- pre-fix, nothing to cut: the "part" *is* the parent -/
theorem split_nocut_returns_parent :
    (splitOld parent0.1 parent0.2 false []).2.2 = [parent0.2] := rfl

/-- pre-fix: projecting a part rewrites a matrix array of the parent (behind its back: a cached
positions array of the parent would now disagree with its matrices) -/
theorem split_then_project_changes_parent :
    let r := splitOld parent0.1 parent0.2 true [0, 2, 3]
    let part := (r.2.2.headD parent0.2)
    (project r.1 part 2 [rz, M3.one]).1.get 0 ≠ r.1.get 0 := by decide +kernel

/-- the same scenario with the repaired splitters: parts share nothing with the parent and the
projection leaves the parent's matrix as it was -/
theorem split_then_project_keeps_parent :
    let r := splitNew parent0.1 parent0.2 true [0, 2, 3]
    (r.2.2.map (fun p => sharesB p r.2.1)) = [false, false] ∧
    (project r.1 (r.2.2.headD parent0.2) 2 [rz, M3.one]).1.get 0 = r.1.get 0 := by decide +kernel

/-! ### why `scale()` must rebind: self-aliased objects -/

/-- an object whose matrix list holds the same array in two slots: `reduce_to_ids([0, 0, 1])` -/
def selfAliased : Heap × Obj := reduce parent0.1 parent0.2 [0, 0, 1]

/-- the rebinding `scale()` of the code and an in-place `*=` on the matrices agree on objects without
repeated arrays, but differ on a self-aliased one: the shared array is scaled once per slot
(position (1,2,3) becomes (4,8,12) instead of (2,4,6)), so the matrices disagree with a positions
array cached before -/
theorem scale_inplace_differs_on_self_alias :
    (selfAliased.2.se3? = some [0, 0, 1]) ∧
    se3Vals (scale selfAliased.1 selfAliased.2 2).1 (scale selfAliased.1 selfAliased.2 2).2
      = [⟨rz, ⟨2, 4, 6⟩⟩, ⟨rz, ⟨2, 4, 6⟩⟩, ⟨M3.one, ⟨8, 10, 12⟩⟩] ∧
    se3Vals (scaleInplace selfAliased.1 selfAliased.2 2).1 (scaleInplace selfAliased.1 selfAliased.2 2).2
      = [⟨rz, ⟨4, 8, 12⟩⟩, ⟨rz, ⟨4, 8, 12⟩⟩, ⟨M3.one, ⟨8, 10, 12⟩⟩] ∧
    se3Vals (scaleInplace parent0.1 parent0.2 2).1 (scaleInplace parent0.1 parent0.2 2).2
      = se3Vals (scale parent0.1 parent0.2 2).1 (scale parent0.1 parent0.2 2).2 := by decide +kernel

/-! ### non-vacuity -/

example : Wf parent0.1 parent0.2 := by
  intro a ha
  have : parent0.2.reach = [3, 0, 1, 2] := by decide +kernel
  rw [this] at ha
  have : parent0.1.next = 4 := by decide +kernel
  rw [this]
  simp at ha
  omega

/-- two separated objects exist: a trajectory and its deep copy; a history on the copy including
the in-place projection -/
example :
    let c := deepcopy parent0.1 parent0.2
    sharesB c.2 parent0.2 = false ∧
    (hrun c.1 c.2 [.readPos, .scale 2, .project 2 [rz, M3.one, rz], .reduce [0, 2]]).2.reach = [13, 9, 11] ∧
    (parent0.2.reach.map (hrun c.1 c.2 [.readPos, .scale 2, .project 2 [rz, M3.one, rz], .reduce [0, 2]]).1.get)
      = parent0.2.reach.map parent0.1.get := by decide +kernel

end Evo.C16
