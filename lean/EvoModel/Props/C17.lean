/-
C17 — existing output files are never overwritten without confirmation.

Model: `Model/Overwrite.lean` (user.confirm, check_and_confirm_overwrite, the guard in front of
every write, the per-figure export loop).  The guard shape of every writer and the expression every
call site passes as `confirm_overwrite` are regenerated from the AST of /repo on every run
(`Gen/Writers.lean`, harness/translate/writers.py); the table theorems below are re-checked against
what the code says now.  The behaviour of the real writers/commands is tied to the model by the
exhaustive correspondence of harness/props/C17.py.
-/
import EvoModel.Gen.Writers
namespace Evo.C17
open Evo Evo.Overwrite Evo.Gen

/-! ## the guard (all answers, all file contents) -/

/-- only the exact answer `y` confirms -/
theorem confirm_only_y (answer : String) : confirm answer = true ↔ answer = "y" := by
  unfold confirm
  by_cases h : answer = "y" <;> simp [h]

/-- **declined_keeps_file**: target exists, warnings enabled, answer is not exactly `y` (`n`, empty,
`Y`, `yes`, anything): the user is asked, nothing is written, the file keeps its bytes. -/
theorem declined_keeps_file (old new : Bytes) (answer : String) (h : answer ≠ "y") :
    applyWriter (some old) new true answer = (some old, true) ∧
    writerStep true true answer = ⟨true, false⟩ := by
  have hc : confirm answer = false := by
    cases hq : confirm answer
    · rfl
    · exact absurd ((confirm_only_y answer).mp hq) h
  simp [applyWriter, writerStep, checkAndConfirm, hc]

/-- **accepted_or_disabled_replaces**: target absent, or warnings disabled, or answer `y`: the file is
the new output afterwards. -/
theorem accepted_or_disabled_replaces (old : File) (new : Bytes) (confirmFlag : Bool) (answer : String)
    (h : old = none ∨ confirmFlag = false ∨ answer = "y") :
    (applyWriter old new confirmFlag answer).1 = some new := by
  rcases h with h | h | h
  · subst h; cases confirmFlag <;> simp [applyWriter, writerStep, checkAndConfirm]
  · subst h; simp [applyWriter, writerStep]
  · subst h; cases confirmFlag <;> cases old <;> simp [applyWriter, writerStep, checkAndConfirm, confirm]

/-- **no_prompt_if_absent** (and none when warnings are disabled): the user is asked exactly when the
target exists and confirmation is enabled. -/
theorem no_prompt_if_absent (new : Bytes) (confirmFlag : Bool) (answer : String) :
    applyWriter none new confirmFlag answer = (some new, false) := by
  cases confirmFlag <;> simp [applyWriter, writerStep, checkAndConfirm]

theorem prompts_iff_exists_and_enabled (old : File) (new : Bytes) (confirmFlag : Bool) (answer : String) :
    (applyWriter old new confirmFlag answer).2 = (old.isSome && confirmFlag) := by
  cases confirmFlag <;> cases old <;> simp [applyWriter, writerStep, checkAndConfirm]

/-- nothing else happens to the file: it is the old or the new content -/
theorem file_is_old_or_new (old : File) (new : Bytes) (confirmFlag : Bool) (answer : String) :
    (applyWriter old new confirmFlag answer).1 = old ∨ (applyWriter old new confirmFlag answer).1 = some new := by
  unfold applyWriter
  cases h : (writerStep old.isSome confirmFlag answer).wrote <;> simp [h]

/-! ## the per-figure export -/

/-- **multi_figure_export_stops_at_first_decline**: figures before the first declined prompt are
written, the declined one and every later one keep their bytes (also the absent ones stay absent). -/
theorem multi_figure_export_stops_at_first_decline (pre : List File) (newPre : List Bytes) (old : Bytes)
    (post : List File) (n : Bytes) (ns : List Bytes) (answers : List String)
    (hlen : pre.length = newPre.length) (hpre : ∀ f ∈ pre, f = none)
    (hdecl : answers.headD "" ≠ "y") :
    (exportMulti true (pre ++ some old :: post) (newPre ++ n :: ns) answers).1
      = newPre.map some ++ some old :: post := by
  induction pre generalizing newPre with
  | nil =>
    cases newPre with
    | nil =>
      have hc : confirm (answers.headD "") = false := by
        cases hq : confirm (answers.headD "")
        · rfl
        · exact absurd ((confirm_only_y _).mp hq) hdecl
      have hc' : confirm (answers.head?.getD "") = false := by simpa [List.headD_eq_head?_getD] using hc
      simp [exportMulti, writerStep, checkAndConfirm, hc']
    | cons a as => simp at hlen
  | cons f fs ih =>
    cases newPre with
    | nil => simp at hlen
    | cons a as =>
      have hf : f = none := hpre f (by simp)
      subst hf
      have := ih as (by simpa using hlen) (fun g hg => hpre g (by simp [hg]))
      simp [exportMulti, writerStep, checkAndConfirm, this]

/-- with confirmation disabled, or all answers `y`, every figure is written -/
theorem multi_figure_export_disabled_writes_all (fs : List File) (ns : List Bytes) (answers : List String)
    (hlen : fs.length = ns.length) :
    (exportMulti false fs ns answers) = (ns.map some, 0) := by
  induction fs generalizing ns with
  | nil => cases ns <;> simp_all [exportMulti]
  | cons f fs ih =>
    cases ns with
    | nil => simp at hlen
    | cons n ns =>
      have := ih ns (by simpa using hlen)
      simp [exportMulti, writerStep, this]

/-! ## the regenerated tables: every writer is guarded, every command passes the flag -/

/-- a guard of one of the shapes found in the source computes `writerStep` for str and Path targets -/
theorem Guard.run_eq (g : Guard) (pk : PathKind) (fileExists confirmFlag : Bool) (answer : String)
    (h : g.kind = .plain ∨ ((g.kind = .typedInner ∨ g.kind = .typedOuter) ∧ g.types.contains pk.pyName = true)) :
    g.run pk fileExists confirmFlag answer = writerStep fileExists confirmFlag answer := by
  unfold Guard.run writerStep
  rcases h with h | ⟨h | h, ht⟩ <;> rw [h] <;> cases confirmFlag <;> simp only [] <;>
    first | rfl | (rw [ht]; simp)

/-- the writers the property is about -/
def expectedWriters : List String :=
  ["write_tum_trajectory_file", "write_kitti_poses_file", "save_res_file", "save_df_as_table",
   "serialize", "export"]

def guardFine (g : Guard) : Bool :=
  g.returnsOnDecline &&
  (g.kind == .plain ||
   ((g.kind == .typedInner || g.kind == .typedOuter) && g.types.contains "str" && g.types.contains "Path"))

/-- **all_writers_guarded**: every writer function of the code as it is now has its guard(s) in the
analysed shape: declines by `return`, and typed guards cover both `str` and `pathlib.Path`. -/
theorem all_writers_guarded :
    ∀ n ∈ expectedWriters, ∃ w ∈ writers, w.name = n ∧ w.guards ≠ [] ∧ ∀ g ∈ w.guards, guardFine g = true := by
  decide

/-- every function with a `confirm_overwrite` parameter is one of the expected writers -/
theorem no_unexpected_writer : ∀ w ∈ writers, w.name ∈ expectedWriters := by decide

/-- **table guards behave as `writerStep`** for str and Path targets, for every answer -/
theorem table_guards_behave_as_writerStep (w : Writer) (hw : w ∈ writers) (g : Guard) (hg : g ∈ w.guards)
    (pk : PathKind) (hpk : pk = .str ∨ pk = .path) (fileExists confirmFlag : Bool) (answer : String) :
    g.run pk fileExists confirmFlag answer = writerStep fileExists confirmFlag answer := by
  apply Guard.run_eq
  have key : ∀ w ∈ writers, ∀ g ∈ w.guards, ∀ pk ∈ [PathKind.str, PathKind.path],
      (g.kind = .plain ∨ ((g.kind = .typedInner ∨ g.kind = .typedOuter) ∧ g.types.contains pk.pyName = true)) := by
    decide
  exact key w hw g hg pk (by rcases hpk with h | h <;> simp [h])

/-- **all_cli_sites_pass_not_no_warnings**: every call of a writer in evo_ape / evo_rpe / evo_traj /
evo_res / common_ape_rpe passes `confirm_overwrite=not args.no_warnings`. -/
theorem all_cli_sites_pass_not_no_warnings :
    ∀ c ∈ callSites, c.cli = true → c.confirm = "not args.no_warnings" := by
  decide

/-- **no_assignment_to_confirm_flags**: nowhere in evo/ is an attribute that a `confirm_overwrite`
expression reads (`args.no_warnings`) assigned, deleted or set through `setattr`: the value every call
site negates is the one the user gave on the command line (or in the `-c` file). -/
theorem no_assignment_to_confirm_flags :
    flagAssignments = [] ∧ "no_warnings" ∈ flagAttributes := by
  decide

/-- the (module, writer) pairs behind the output options of the four commands -/
def expectedSites : List (String × String) :=
  [("evo/main_ape.py", "save_res_file"), ("evo/main_rpe.py", "save_res_file"),
   ("evo/common_ape_rpe.py", "export"), ("evo/common_ape_rpe.py", "serialize"),
   ("evo/main_traj.py", "export"), ("evo/main_traj.py", "serialize"),
   ("evo/main_traj.py", "write_tum_trajectory_file"), ("evo/main_traj.py", "write_kitti_poses_file"),
   ("evo/main_traj.py", "save_df_as_table"),
   ("evo/main_res.py", "save_df_as_table"), ("evo/main_res.py", "export"), ("evo/main_res.py", "serialize")]

theorem every_output_option_has_cli_site :
    ∀ e ∈ expectedSites, ∃ c ∈ callSites, c.cli = true ∧ c.file = e.1 ∧ c.writer = e.2 := by
  decide

/-- value of the flag at every command call site -/
theorem cli_flag_value (c : CallSite) (hc : c ∈ callSites) (hcli : c.cli = true) (dflt noWarnings : Bool) :
    confirmExpr c.confirm dflt noWarnings = some (!noWarnings) := by
  rw [all_cli_sites_pass_not_no_warnings c hc hcli]; rfl

/-- **command level**: for every command call site and every writer guard in the source, an existing
target with warnings enabled and an answer other than `y` is prompted for and not written; with
`--no_warnings`, or answer `y`, or an absent target, it is written. -/
theorem cli_declined_keeps_file (c : CallSite) (hc : c ∈ callSites) (hcli : c.cli = true)
    (w : Writer) (hw : w ∈ writers) (g : Guard) (hg : g ∈ w.guards) (answer : String) (h : answer ≠ "y") :
    ∃ cf, confirmExpr c.confirm w.dflt false = some cf ∧ g.run .str true cf answer = ⟨true, false⟩ := by
  refine ⟨true, cli_flag_value c hc hcli _ _, ?_⟩
  rw [table_guards_behave_as_writerStep w hw g hg .str (Or.inl rfl)]
  exact (declined_keeps_file [] [] answer h).2

theorem cli_accepted_or_disabled_writes (c : CallSite) (hc : c ∈ callSites) (hcli : c.cli = true)
    (w : Writer) (hw : w ∈ writers) (g : Guard) (hg : g ∈ w.guards) (noWarnings fileExists : Bool)
    (answer : String) (h : fileExists = false ∨ noWarnings = true ∨ answer = "y") :
    ∃ cf, confirmExpr c.confirm w.dflt noWarnings = some cf ∧ (g.run .str fileExists cf answer).wrote = true := by
  refine ⟨!noWarnings, cli_flag_value c hc hcli _ _, ?_⟩
  rw [table_guards_behave_as_writerStep w hw g hg .str (Or.inl rfl)]
  rcases h with h | h | h
  · subst h; cases noWarnings <;> simp [writerStep, checkAndConfirm]
  · subst h; simp [writerStep]
  · subst h; cases noWarnings <;> cases fileExists <;> simp [writerStep, checkAndConfirm, confirm]

/-- `evo_config generate -o`: the only raw `open(…,'w')` of the command modules sits inside an
`if … check_and_confirm_overwrite(args.out)` (always asks: there is no --no_warnings). -/
theorem generate_out_guarded :
    (∀ r ∈ rawWrites, r.guarded = true) ∧
    (∃ d ∈ directGuards, d.file = "evo/main_config.py" ∧ d.guardsWrite = true ∧
      d.test = "args.out and user.check_and_confirm_overwrite(args.out)") := by
  decide

/-- `user.confirm` as written in the source is the equality test with `y` -/
theorem confirm_shape_is_equality (answer : String) :
    confirmShape.run answer confirmKey = some (confirm answer) := by
  have h1 : confirmShape = ⟨"NotEq", false, true⟩ := by decide
  have h2 : confirmKey = "y" := by decide
  rw [h1, h2]
  unfold ConfirmShape.run confirm
  by_cases h : answer = "y" <;> simp [h]

/-! ## non-vacuity -/

example : applyWriter (some [1, 2, 3]) [9] true "n" = (some [1, 2, 3], true) := by decide
example : applyWriter (some [1, 2, 3]) [9] true "Y" = (some [1, 2, 3], true) := by decide
example : applyWriter (some [1, 2, 3]) [9] true "yes" = (some [1, 2, 3], true) := by decide
example : applyWriter (some [1, 2, 3]) [9] true "" = (some [1, 2, 3], true) := by decide
example : applyWriter (some [1, 2, 3]) [9] true "y" = (some [9], true) := by decide
example : applyWriter (some [1, 2, 3]) [9] false "n" = (some [9], false) := by decide
example : exportMulti true [none, some [1], some [2], none] [[7], [8], [9], [10]] ["y", "n"]
    = ([some [7], some [8], some [2], none], 2) := by decide
example : 12 ≤ (callSites.filter (·.cli)).length := by decide
/-- a guard that only checks `str` would let a `Path` target through unasked (kill: isinstance str only) -/
example : (Guard.mk .typedInner ["str"] false true).run .path true true "n" = ⟨false, true⟩ := by decide

end Evo.C17
