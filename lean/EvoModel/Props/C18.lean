import EvoModel.Model.Config
import EvoModel.Gen.Settings
import EvoModel.Gen.Options
namespace Evo.C18
open Evo Evo.Config
theorem placeholder : keys ([] : Dict) = [] := rfl
end Evo.C18
