/-
C18 — config edits keep keys, types, user values; generated configs equal their args.

Model: `Model/Config.lean` (set_config / finalize_values / is_number, reset, merge_dicts, the upgrade
merge, the SettingsContainer lock, merge_config, generate with is_option / to_number as repaired by
fix 70efe12 and the pinned generate, argparse for long options over the regenerated option tables).
Lemmas: `Lemmas/Config.lean`.  Tables regenerated from /repo: `Gen/Settings.lean`, `Gen/Options.lean`.
Outside the model (named where it matters): the token spellings nan / inf / infinity / digits with `_` /
surrounding white space / non-ASCII; binary64 overflow; the key `plot_seaborn_palette` (`setConfig`
returns an error for it, so every theorem about successful edits excludes it).
-/
import EvoModel.Lemmas.Config
import EvoModel.Gen.Settings
import EvoModel.Gen.Options
set_option linter.unusedSimpArgs false
namespace Evo.C18
open Evo Evo.Config

/-! ## set -/

/-- **set_keys_invariant**: a `set` never adds, removes or reorders keys (whatever the tokens) -/
theorem set_keys_invariant (cfg out : Dict) (args : List String) (h : setConfig cfg args = .ok out) :
    keys out = keys cfg := setConfig_keys args cfg out h

/-- **set_changes_only_named**: parameters not named in the argument list keep their value -/
theorem set_changes_only_named (cfg out : Dict) (args : List String) (k : String) (hk : k ∉ args)
    (h : setConfig cfg args = .ok out) : lookup out k = lookup cfg k := setConfig_other args k hk cfg out h

/-- **set_bool_stays_bool**: explicit true/false (any capitalisation), any other value or no value
(toggle): a boolean parameter is boolean afterwards -/
theorem set_bool_stays_bool (cfg out : Dict) (args : List String) (k : String)
    (hb : typeAt cfg k = some .bool) (h : setConfig cfg args = .ok out) : typeAt out k = some .bool :=
  setConfig_keeps_bool args k cfg out h hb

/-- **set_list_stays_list**: one value, several values, `[]` / `none`: a list parameter stays a list -/
theorem set_list_stays_list (cfg out : Dict) (args : List String) (k : String)
    (hb : typeAt cfg k = some .list) (h : setConfig cfg args = .ok out) : typeAt out k = some .list :=
  setConfig_keeps_list args k cfg out h hb

/-- explicit `true` / `false` set the value, anything else toggles it -/
theorem set_bool_explicit (cfg : Dict) (k tok : String) (b : Bool)
    (hk : lookup cfg k = some (.atom (.bool b))) (hkp : k ≠ "plot_seaborn_palette")
    (htok : hasKey cfg tok = false) (hnum : isNumber tok = false) :
    ∃ out, setConfig cfg [k, tok] = .ok out ∧
      lookup out k = some (.atom (.bool (if lowerAscii tok = "false" then false
                                          else if lowerAscii tok = "true" then true else !b))) := by
  have hhk : hasKey cfg k = true := (hasKey_iff_lookup _ _).mpr ⟨_, hk⟩
  have hne : k ≠ tok := by intro e; rw [e] at hhk; rw [hhk] at htok; cases htok
  by_cases h1 : lowerAscii tok = "false"
  · refine ⟨setKey cfg k (.atom (.bool false)), ?_, by simp [h1, lookup_setKey_self]⟩
    simp [setConfig, hhk, htok, convSet, hnum, finalizeValues, hkp, hk, h1, hasKey_setKey, hne, Ne.symm hne,
      pure, Except.pure, bind, Except.bind]
  · by_cases h2 : lowerAscii tok = "true"
    · refine ⟨setKey cfg k (.atom (.bool true)), ?_, by simp [h1, h2, lookup_setKey_self]⟩
      simp [setConfig, hhk, htok, convSet, hnum, finalizeValues, hkp, hk, h1, h2, hasKey_setKey, hne, Ne.symm hne,
        pure, Except.pure, bind, Except.bind]
    · refine ⟨setKey cfg k (.atom (.bool !b)), ?_, by simp [h1, h2, lookup_setKey_self]⟩
      simp [setConfig, hhk, htok, convSet, hnum, finalizeValues, hkp, hk, h1, h2, hasKey_setKey, hne, Ne.symm hne,
        pure, Except.pure, bind, Except.bind]

/-- **set_numeric_tokens_are_numbers**: a numeric token given to a parameter that is neither boolean
nor a list is stored as a number — an integer if its binary64 value is integral, else that float -/
theorem set_numeric_tokens_are_numbers (cfg : Dict) (k tok : String) (x : Rat) (old : Atom)
    (hk : lookup cfg k = some (.atom old)) (hnb : ∀ b, old ≠ .bool b) (hkp : k ≠ "plot_seaborn_palette")
    (htok : hasKey cfg tok = false) (hnum : isNumber tok = true) (hx : toFloat tok = .ok x) :
    ∃ out, setConfig cfg [k, tok] = .ok out ∧
      lookup out k = some (.atom (if x.den = 1 then .int x.num else .flt x)) := by
  have hhk : hasKey cfg k = true := (hasKey_iff_lookup _ _).mpr ⟨_, hk⟩
  have hne : k ≠ tok := by intro e; rw [e] at hhk; rw [hhk] at htok; cases htok
  refine ⟨setKey cfg k (.atom (if x.den = 1 then .int x.num else .flt x)), ?_, lookup_setKey_self _ _ _⟩
  cases old with
  | bool b => exact absurd rfl (hnb b)
  | _ =>
    simp [setConfig, hhk, htok, convSet, hnum, hx, finalizeValues, hkp, hk, hasKey_setKey, hne, Ne.symm hne,
      pure, Except.pure, bind, Except.bind]

/-! ## reset, upgrade, merge, lock -/

/-- **reset_subset_restores_exactly**: exactly the named default parameters get their default value,
every other parameter keeps its value; with every default key present the key list is unchanged -/
theorem reset_subset_restores_exactly (defaults cfg : Dict) (ps : List String) (k : String) :
    lookup (resetSubset defaults cfg ps) k =
      if k ∈ ps ∧ hasKey defaults k = true then lookup defaults k else lookup cfg k :=
  resetSubset_lookup defaults ps k cfg

theorem reset_subset_keys_invariant (defaults cfg : Dict) (ps : List String)
    (hall : ∀ k, hasKey defaults k = true → hasKey cfg k = true) :
    keys (resetSubset defaults cfg ps) = keys cfg := resetSubset_keys defaults ps cfg hall

/-- **upgrade_adds_missing_keeps_user_values** -/
theorem upgrade_adds_missing_keeps_user_values (defaults old : Dict) :
    (∀ k v, lookup old k = some v → lookup (upgrade defaults old) k = some v) ∧
    (∀ k, hasKey defaults k = true → hasKey (upgrade defaults old) k = true) ∧
    (∀ k, hasKey (upgrade defaults old) k = true → hasKey old k = true ∨ hasKey defaults k = true) := by
  refine ⟨fun k v h => ?_, fun k h => ?_, fun k h => ?_⟩
  · exact foldl_soft_lookup_first old defaults old (fun _ _ h => h) k v h
  · exact merge_hasKey_second old defaults true old (fun _ h => h) k h
  · exact merge_hasKey_only old defaults true old k h

/-- **merge_hard_soft_semantics**: the keys are the union; soft keeps every value of the first dict;
hard takes the second dict's value where it has one and the first dict's value elsewhere -/
theorem merge_hard_soft_semantics (first second : Dict) (soft : Bool) :
    (∀ k, hasKey (mergeDicts first second soft) k = true ↔ (hasKey first k = true ∨ hasKey second k = true)) ∧
    (soft = true → ∀ k v, lookup first k = some v → lookup (mergeDicts first second soft) k = some v) ∧
    (soft = false → ∀ k, hasKey second k = false → lookup (mergeDicts first second soft) k = lookup first k) ∧
    (soft = false → (keys second).Nodup → ∀ k v, lookup second k = some v →
      lookup (mergeDicts first second soft) k = some v) := by
  refine ⟨fun k => ⟨fun h => merge_hasKey_only first second soft first k h, fun h => ?_⟩, ?_, ?_, ?_⟩
  · rcases h with h | h
    · exact merge_hasKey_first first second soft k h
    · exact merge_hasKey_second first second soft first (fun _ h => h) k h
  · intro hs k v h; subst hs; exact foldl_soft_lookup_first first second first (fun _ _ h => h) k v h
  · intro hs k h; subst hs; exact merge_hard_not_in_second first second k h
  · intro hs hnd k v h; subst hs; exact merge_hard_second_wins first second k v hnd h

/-- **locked_rejects_unknown**: the loaded settings accept a value for a known parameter (key list
unchanged) and refuse an unknown one -/
theorem locked_rejects_unknown (settings : Dict) (k : String) (v : JVal) :
    (hasKey settings k = false → lockedSet settings k v = .error .locked) ∧
    (hasKey settings k = true → ∃ out, lockedSet settings k v = .ok out ∧ keys out = keys settings ∧
      lookup out k = some v) := by
  constructor
  · intro h; simp [lockedSet, h]
  · intro h
    exact ⟨setKey settings k v, by simp [lockedSet, h, pure, Except.pure], keys_setKey_of_hasKey _ _ _ h,
      lookup_setKey_self _ _ _⟩

/-- **mergeConfig_config_wins**: every entry of the `-c` file is in the namespace afterwards, whatever the
command line said; options the file does not mention keep their command-line value -/
theorem mergeConfig_config_wins (args config settings : Dict) (hnd : (keys config).Nodup) :
    (∀ k v, lookup config k = some v → lookup (mergeConfig args config settings).1 k = some v) ∧
    (∀ k, hasKey config k = false → lookup (mergeConfig args config settings).1 k = lookup args k) :=
  ⟨fun k v h => merge_hard_second_wins args config k v hnd h,
   fun k h => merge_hard_not_in_second args config k h⟩

/-- **mergeConfig_settings_override_not_persisted**: for that run the package settings take the file's
value exactly for the parameters they already have — no key is added or removed — and `mergeConfig`
returns in-memory values only (the model has no file component: nothing is written). -/
theorem mergeConfig_settings_override_not_persisted (args config settings : Dict) :
    keys (mergeConfig args config settings).2 = keys settings ∧
    ∀ k, lookup (mergeConfig args config settings).2 k =
      match lookup settings k with
      | none => none
      | some v => some ((lookup config k).getD v) :=
  ⟨keys_updateExisting _ _, fun k => lookup_updateExisting _ _ k⟩

/-! ## arbitrary edit histories -/

inductive Op
  | set (args : List String)
  | resetSub (ps : List String)
  | resetAll
  | merge (other : Dict) (soft : Bool)
  | upgrade

def applyOp (defaults cfg : Dict) : Op → Except Err Dict
  | .set args => setConfig cfg args
  | .resetSub ps => .ok (resetSubset defaults cfg ps)
  | .resetAll => .ok defaults
  | .merge other soft => .ok (mergeDicts cfg other soft)
  | .upgrade => .ok (upgrade defaults cfg)

def applyOps (defaults : Dict) : Dict → List Op → Except Err Dict
  | cfg, [] => .ok cfg
  | cfg, op :: ops => match applyOp defaults cfg op with
    | .ok c => applyOps defaults c ops
    | .error e => .error e

def Op.isEdit : Op → Bool
  | .set _ => true | .resetSub _ => true | _ => false

/-- over any history of `set` and `reset <subset>` operations the key list never changes -/
theorem history_set_reset_keys_invariant (defaults : Dict) (ops : List Op) (hops : ∀ o ∈ ops, o.isEdit = true) :
    ∀ cfg out, (∀ k, hasKey defaults k = true → hasKey cfg k = true) →
      applyOps defaults cfg ops = .ok out → keys out = keys cfg := by
  induction ops with
  | nil => intro cfg out _ h; simp [applyOps] at h; rw [h]
  | cons op ops ih =>
    intro cfg out hall h
    have hops' : ∀ o ∈ ops, o.isEdit = true := fun o ho => hops o (by simp [ho])
    have hop := hops op (by simp)
    rw [applyOps] at h
    cases op with
    | set args =>
      cases hs : setConfig cfg args with
      | error e => simp [applyOp, hs] at h
      | ok c =>
        simp only [applyOp, hs] at h
        have hk := setConfig_keys args cfg c hs
        rw [ih hops' c out (fun k hk' => by rw [hasKey_iff_mem_keys, hk, ← hasKey_iff_mem_keys]; exact hall k hk') h, hk]
    | resetSub ps =>
      simp only [applyOp] at h
      have hk := resetSubset_keys defaults ps cfg hall
      rw [ih hops' _ out (fun k hk' => by rw [hasKey_iff_mem_keys, hk, ← hasKey_iff_mem_keys]; exact hall k hk') h, hk]
    | resetAll => simp [Op.isEdit] at hop
    | merge o s => simp [Op.isEdit] at hop
    | upgrade => simp [Op.isEdit] at hop

/-- over any history of set / reset / merge (soft and hard) / upgrade operations every default key stays present -/
theorem history_default_keys_stay (defaults : Dict) (ops : List Op) :
    ∀ cfg out, (∀ k, hasKey defaults k = true → hasKey cfg k = true) →
      applyOps defaults cfg ops = .ok out → ∀ k, hasKey defaults k = true → hasKey out k = true := by
  induction ops with
  | nil => intro cfg out hall h; simp [applyOps] at h; rw [← h]; exact hall
  | cons op ops ih =>
    intro cfg out hall h
    rw [applyOps] at h
    cases op with
    | set args =>
      cases hs : setConfig cfg args with
      | error e => simp [applyOp, hs] at h
      | ok c =>
        simp only [applyOp, hs] at h
        have hk := setConfig_keys args cfg c hs
        exact ih c out (fun k hk' => by rw [hasKey_iff_mem_keys, hk, ← hasKey_iff_mem_keys]; exact hall k hk') h
    | resetSub ps =>
      simp only [applyOp] at h
      have hk := resetSubset_keys defaults ps cfg hall
      exact ih _ out (fun k hk' => by rw [hasKey_iff_mem_keys, hk, ← hasKey_iff_mem_keys]; exact hall k hk') h
    | resetAll => simp only [applyOp] at h; exact ih _ out (fun _ h => h) h
    | merge o s =>
      simp only [applyOp] at h
      exact ih _ out (fun k hk' => merge_hasKey_first cfg o s k (hall k hk')) h
    | upgrade =>
      simp only [applyOp] at h
      exact ih _ out (fun k hk' => merge_hasKey_first cfg defaults true k (hall k hk')) h

/-! ## generate -/

/-- an option with its value tokens, as written on the command line -/
structure Group where
  opt : String
  vals : List String

def Group.render (g : Group) : List String := g.opt :: g.vals

/-- well-formed: the option token is an option for `generate` (starts with `-`, not a number), the
values are not (they do not start with `-`, or they are numbers) -/
def Group.WF (g : Group) : Prop := isOptionTok g.opt = true ∧ ∀ v ∈ g.vals, isOptionTok v = false

/-- the config entry `generate` must produce for a group -/
def Group.value (g : Group) : Except Err JVal :=
  if g.vals.isEmpty then pure (.atom (.bool true))
  else do let vals ← g.vals.mapM convGen; pure (scalarOrList vals)

def expected : List Group → Dict → Except Err Dict
  | [], d => pure d
  | g :: gs, d => do let v ← g.value; expected gs (setKey d (stripDashes g.opt) v)

theorem takeWhile_vals (p : String → Bool) (vals rest : List String) (hv : ∀ v ∈ vals, p v = true)
    (hr : rest = [] ∨ ∃ a r, rest = a :: r ∧ p a = false) : (vals ++ rest).takeWhile p = vals := by
  induction vals with
  | nil =>
    rcases hr with h | ⟨a, r, h, ha⟩
    · simp [h]
    · simp [h, List.takeWhile, ha]
  | cons v vs ih =>
    have := hv v (by simp)
    simp [List.takeWhile, this, ih (fun w hw => hv w (by simp [hw]))]

theorem skip_vals (isOpt : String → Bool) (conv : String → Except Err Atom) (vals rest : List String) (d : Dict)
    (hv : ∀ v ∈ vals, isOpt v = false) :
    generateWith isOpt conv (vals ++ rest) d = generateWith isOpt conv rest d := by
  induction vals with
  | nil => rfl
  | cons v vs ih =>
    have := hv v (by simp)
    simp only [List.cons_append, generateWith, this, Bool.false_eq_true, if_false]
    exact ih (fun w hw => hv w (by simp [hw]))

theorem flatMap_head (gs : List Group) (hwf : ∀ g ∈ gs, g.WF) :
    gs.flatMap Group.render = [] ∨ ∃ a r, gs.flatMap Group.render = a :: r ∧ (!isOptionTok a) = false := by
  cases gs with
  | nil => left; rfl
  | cons g gs =>
    right
    exact ⟨g.opt, g.vals ++ gs.flatMap Group.render, by simp [Group.render], by simp [(hwf g (by simp)).1]⟩

/-- **generate_groups** (the `generate` half of `generate ≡ args`): for every well-formed list of
option groups — flags, single values, several values; integers, negative numbers, floats, strings —
`generate` yields exactly one entry per group: `true` for a flag, the value(s) converted by
`to_number` otherwise (integers stay integers, negative numbers are values). -/
theorem generate_groups (gs : List Group) (hwf : ∀ g ∈ gs, g.WF) (d : Dict) :
    generateWith isOptionTok convGen (gs.flatMap Group.render) d = expected gs d := by
  induction gs generalizing d with
  | nil => rfl
  | cons g gs ih =>
    have hg := hwf g (by simp)
    have hwf' : ∀ g ∈ gs, g.WF := fun g' hg' => hwf g' (by simp [hg'])
    have htw : (g.vals ++ gs.flatMap Group.render).takeWhile (fun t => !isOptionTok t) = g.vals :=
      takeWhile_vals _ _ _ (fun v hv => by simp [hg.2 v hv]) (flatMap_head gs hwf')
    simp only [List.flatMap_cons, Group.render, List.cons_append, generateWith, hg.1, if_true, htw, expected,
      Group.value]
    by_cases he : g.vals.isEmpty = true
    · simp only [he, if_true, pure, Except.pure, bind, Except.bind]
      rw [skip_vals _ _ _ _ _ hg.2]
      exact ih hwf' _
    · simp only [he, Bool.false_eq_true, if_false]
      cases hm : g.vals.mapM convGen with
      | error e => simp [bind, Except.bind]
      | ok vals =>
        simp only [bind, Except.bind, pure, Except.pure]
        rw [skip_vals _ _ _ _ _ hg.2]
        exact ih hwf' _

/-- integer tokens stay integers, whatever their size; other numeric tokens become that float -/
theorem generate_value_int (tok : String) (i : Int) (hn : isNumber tok = true) (hi : parseInt tok = some i) :
    convGen tok = .ok (.int i) := by
  simp [convGen, hn, hi, pure, Except.pure]

theorem generate_value_float (tok : String) (x : Rat) (hn : isNumber tok = true) (hi : parseInt tok = none)
    (hx : toFloat tok = .ok x) : convGen tok = .ok (.flt x) := by
  simp [convGen, hn, hi, hx, pure, Except.pure, bind, Except.bind]

/-- a numeric token is never read as an option: negative numbers are values -/
theorem number_is_not_option (tok : String) (hn : isNumber tok = true) : isOptionTok tok = false := by
  simp [isOptionTok, hn]

theorem optApprox_refl (x : Option JVal) : optApprox x x = true := by
  cases x <;> simp [optApprox, valApprox_refl]

/-- **generate_equiv_args**: for every well-formed long-option token list over an option table `T`
(well-formedness is the decidable predicate `wfGroup`: every option is an entry of the table whose token
`--name` is read as that option by both readers — `tokOk`, a closed fact checked for the regenerated
tables below —, the arity of the option is respected — none for a flag, one for a scalar, `n ≥ 2` for
`nargs=n` —, and every value token is in the modelled class of the option's type — `valOk`), and no two
members of a mutually exclusive group given:
`generate` succeeds, argparse accepts the list, and the namespace obtained from the defaults through
`merge_config` with the generated config agrees entry by entry with the namespace argparse produces
from the arguments (`≈`: equal, or an integer next to the same value as a float for float-typed options;
integer-typed options are equal integers).  By induction over the option groups.
Excluded token classes (outside `valOk`, see its definition): string options given a numeric-looking
value, integer tokens not exactly representable given to float options, negative numbers in exponent
notation and other tokens starting with `-` that are not `-d+` / `-d*.d+`, `nan`/`inf`/`_`/white-space
spellings, values overflowing binary64, short options, `nargs=1`, `nargs='+'` (no such option exists). -/
theorem generate_equiv_args (T : List Opt) (excl : List (List String)) (gs : List TGroup)
    (hgs : ∀ g ∈ gs, wfGroup T g = true) (hex : exclFree excl (gs.flatMap TGroup.render) = true) :
    ∃ c a, generate (gs.flatMap TGroup.render) = .ok c ∧
      argparseLong T (gs.flatMap TGroup.render) (defaultsOf T) excl = some a ∧
      ∀ k, optApprox (lookup (mergeConfig (defaultsOf T) c []).1 k) (lookup a k) = true := by
  refine ⟨foldGroups genValue gs [], foldGroups argValue gs (defaultsOf T),
    generateWith_groups T gs hgs [], argparseLong_groups T excl gs hgs hex _, fun k => ?_⟩
  have hap := lastVal_approx T gs hgs k
  have hc := lookup_foldGroups genValue gs k []
  have ha := lookup_foldGroups argValue gs k (defaultsOf T)
  have hnd : (keys (foldGroups genValue gs [])).Nodup := keys_nodup_foldGroups _ gs [] (by simp [keys])
  simp only [mergeConfig]
  rw [ha]
  cases h1 : lastVal genValue gs k with
  | some v =>
    cases h2 : lastVal argValue gs k with
    | some w =>
      rw [h1] at hc
      rw [merge_hard_second_wins _ _ k v hnd hc]
      simpa [h1, h2] using hap
    | none => simp [h1, h2, optApprox] at hap
  | none =>
    cases h2 : lastVal argValue gs k with
    | some w => simp [h1, h2, optApprox] at hap
    | none =>
      rw [h1] at hc
      have hnk : hasKey (foldGroups genValue gs []) k = false := by simp [hasKey, hc, lookup]
      rw [merge_hard_not_in_second _ _ k hnk]
      exact optApprox_refl _

/-- the closed side condition of `generate_equiv_args` holds for every entry of the three regenerated tables -/
theorem option_tokens_ok :
    (∀ o ∈ Gen.apeOptions, tokOk Gen.apeOptions o = true) ∧
    (∀ o ∈ Gen.rpeOptions, tokOk Gen.rpeOptions o = true) ∧
    (∀ o ∈ Gen.trajOptions, tokOk Gen.trajOptions o = true) := by
  decide +kernel

/-- `generate_equiv_args` for the option tables of evo_ape, evo_rpe and evo_traj as they are now: the
well-formedness condition reduces to "option of the table, arity respected, values in the modelled classes" -/
theorem generate_equiv_args_evo (T : List Opt) (excl : List (List String))
    (hT : (T = Gen.apeOptions ∧ excl = Gen.apeExclusive) ∨ (T = Gen.rpeOptions ∧ excl = Gen.rpeExclusive) ∨
          (T = Gen.trajOptions ∧ excl = Gen.trajExclusive))
    (gs : List TGroup)
    (hgs : ∀ g ∈ gs, g.opt ∈ T ∧ arityOk g.opt g.vals = true ∧ g.vals.all (valOk g.opt) = true)
    (hex : exclFree excl (gs.flatMap TGroup.render) = true) :
    ∃ c a, generate (gs.flatMap TGroup.render) = .ok c ∧
      argparseLong T (gs.flatMap TGroup.render) (defaultsOf T) excl = some a ∧
      ∀ k, optApprox (lookup (mergeConfig (defaultsOf T) c []).1 k) (lookup a k) = true := by
  apply generate_equiv_args T excl gs _ hex
  intro g hg
  obtain ⟨hm, har, hv⟩ := hgs g hg
  have htok : tokOk T g.opt = true := by
    rcases hT with ⟨h, _⟩ | ⟨h, _⟩ | ⟨h, _⟩ <;> subst h
    · exact option_tokens_ok.1 _ hm
    · exact option_tokens_ok.2.1 _ hm
    · exact option_tokens_ok.2.2 _ hm
  simp [wfGroup, htok, har, hv]

/-- the argument list of finding F3, the documented example and a two-value option are well-formed
(non-vacuity of `generate_equiv_args`; the entries of the table are looked up by name) -/
def groupsOf (T : List Opt) (l : List (String × List String)) : List TGroup :=
  l.filterMap fun p => (T.find? (fun o => o.name = p.1)).map fun o => ⟨o, p.2⟩

theorem generate_equiv_args_instances :
    (∀ l ∈ [[("downsample", ["500"]), ("t_offset", ["-0.5"]), ("n_to_align", ["-1"])],
            [("align", []), ("plot", []), ("plot_mode", ["xz"]), ("verbose", [])],
            [("motion_filter", ["0.5", "-3"]), ("t_max_diff", ["1"]), ("save_plot", ["out.pdf"])]],
      (groupsOf Gen.apeOptions l).length = l.length ∧
      (groupsOf Gen.apeOptions l).all (wfGroup Gen.apeOptions) = true ∧
      exclFree Gen.apeExclusive ((groupsOf Gen.apeOptions l).flatMap TGroup.render) = true) ∧
    -- outside the modelled classes: a numeric-looking string, an exponent-notation negative number
    (groupsOf Gen.apeOptions [("save_plot", ["2024"])]).all (wfGroup Gen.apeOptions) = false ∧
    (groupsOf Gen.apeOptions [("t_offset", ["-1e-3"])]).all (wfGroup Gen.apeOptions) = false := by
  decide +kernel

/-! ## the pinned code before fix 70efe12 (finding F3): kernel-checked counterexamples -/

/-- **generate_int_counterexample**: `--downsample 500 ↦ 500.0` (evo_ape -c then fails in linspace) -/
theorem generate_int_counterexample :
    (generateOld ["--downsample", "500"]).toOption = some [("downsample", .atom (.flt 500))] ∧
    (generate ["--downsample", "500"]).toOption = some [("downsample", .atom (.int 500))] := by
  decide +kernel

/-- **generate_negative_counterexample**: `--t_offset -0.5` was read as two flags -/
theorem generate_negative_counterexample :
    (generateOld ["--t_offset", "-0.5"]).toOption
      = some [("t_offset", .atom (.bool true)), ("0.5", .atom (.bool true))] ∧
    (generate ["--t_offset", "-0.5"]).toOption = some [("t_offset", .atom (.flt (-1/2)))] := by
  decide +kernel

/-! ## the regenerated tables -/

/-- every long option of the three parsers stores under its own name, with an action the model covers -/
theorem option_tables_modelled :
    Gen.apeUnmodelled = [] ∧ Gen.rpeUnmodelled = [] ∧ Gen.trajUnmodelled = [] := by decide

/-- the 50 settings keys are pairwise distinct, and the default `plot_seaborn_palette` is a string -/
theorem default_keys_nodup : Gen.defaultKeys.Nodup ∧ keys Gen.defaultSettings = Gen.defaultKeys := by
  decide +kernel

/-! ## `-c` overrides reach the code that uses the setting (finding F16) -/

/-- **a key given in the -c file is what the run uses**: a function that reads the setting when it is called sees the
value of the `-c` file for every key the file and the settings share (the repaired `save_df_as_table`) -/
theorem config_override_reaches_call (args config settings : Dict) (key : String) (v : JVal)
    (hk : (lookup settings key).isSome) (hc : lookup config key = some v) :
    settingReadAtCall key settings (mergeConfig args config settings).2 = some v := by
  unfold settingReadAtCall mergeConfig
  simp only [lookup_updateExisting]
  cases hs : lookup settings key with
  | none => simp [hs] at hk
  | some w => simp [hc]

/-- F16, kernel-checked: a default argument bound at import ignores the override (`table_export_format`: csv in
settings.json, json in the -c file — the pre-fix `evo_res --save_table` wrote csv) -/
theorem f16_counterexample :
    let settings : Dict := [("table_export_format", .atom (.str "csv"))]
    let config : Dict := [("table_export_format", .atom (.str "json"))]
    let run := (mergeConfig [] config settings).2
    settingBoundAtImport "table_export_format" settings run = some (.atom (.str "csv")) ∧
    settingReadAtCall "table_export_format" settings run = some (.atom (.str "json")) := by
  decide +kernel

/-! ## non-vacuity -/

example : (setConfig Gen.defaultSettings ["plot_split", "plot_linewidth", "3", "plot_statistics", "none"]).toOption.map
    (fun d => (lookup d "plot_split", lookup d "plot_linewidth", lookup d "plot_statistics"))
    = some (some (.atom (.bool true)), some (.atom (.int 3)), some (.list [])) := by decide +kernel

example : (setConfig Gen.defaultSettings ["plot_split", "FALSE", "plot_reference_alpha", "0.25"]).toOption.map
    (fun d => (lookup d "plot_split", lookup d "plot_reference_alpha"))
    = some (some (.atom (.bool false)), some (.atom (.flt (1/4)))) := by decide +kernel

example : (Group.mk "--t_offset" ["-0.5"]).WF := by
  constructor
  · decide +kernel
  · intro v hv; simp at hv; subst hv; decide +kernel

end Evo.C18
