import EvoModel.Model.SettingsProc
namespace Evo.C19
open Evo.FS
theorem safe_init_placeholder : Safe FS.fresh := Or.inl rfl
end Evo.C19
