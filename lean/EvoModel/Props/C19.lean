/-
C19 — the settings file stays loadable across crashes and concurrent starts.

Model: `Model/FS.lean`, `Model/SettingsProc.lean` (programs of atomic file-system steps exactly as
evo/tools/settings.py and evo/main_config.py issue them after fix 703b53e; a run = any finite
schedule of any number of processes; a process that is no longer scheduled has been killed there;
a `write` may be torn).  Helper lemmas (soundness of the write discipline `Ok`): `Lemmas/FS.lean`.
The tie of the programs to /repo is the trace correspondence of harness/props/C19.py.
-/
import EvoModel.Lemmas.FS
import EvoModel.Drv.C19
set_option linter.unusedSimpArgs false
namespace Evo.C19
open Evo Evo.FS

/-- what must be known when a program ends: the loaded SETTINGS has every default key -/
def Loaded (F : Facts) : Prop := F.loaded = true

/-- what is known after `import evo` (and kept by every command) -/
structure Ready (F : Facts) : Prop where
  dir : F.dir = true
  exS : F.ex .S = true
  exV : F.ex .V = true
  sGood : F.sGood = true
  loaded : F.loaded = true

/-! ## the routines of the repaired code follow the write discipline -/

/-- `initialize_if_needed(); update_if_outdated(); load` followed by any accepted command -/
theorem start_accepted {post : Facts → Prop} {k : Prog} (hk : ∀ F, Ready F → Ok post F k) :
    Ok post {} (start k) := by
  simp only [start, initProg, update, load, resetAll, writeAtomic, Ok, Facts.setTmp, Facts.setEx,
    Facts.afterReplace, Facts.afterRead, SrcOk]
  simp
  repeat' apply And.intro
  all_goals (apply hk; constructor <;> simp)

theorem done_accepted (F : Facts) (hF : Ready F) : Ok Loaded F .done := hF.loaded

theorem resetAll_accepted {post : Facts → Prop} {k : Prog}
    (hk : ∀ F, Ready F → Ok post F k) (F : Facts) (hF : Ready F) : Ok post F (resetAll k) := by
  simp only [resetAll, writeAtomic, Ok, Facts.setTmp, Facts.setEx,
    Facts.afterReplace, Facts.afterRead, SrcOk]
  simp [hF.dir, hF.exS, hF.sGood]
  repeat' apply And.intro
  all_goals (apply hk; constructor <;> simp [hF.dir, hF.exS, hF.exV, hF.sGood, hF.loaded])

theorem resetSubset_accepted {post : Facts → Prop} {k : Prog} {f : Doc → Doc} (hf : KeyMono f)
    (hk : ∀ F, Ready F → Ok post F k) (F : Facts) (hF : Ready F) : Ok post F (resetSubset f k) := by
  simp only [resetSubset, writeAtomic, Ok, Facts.setTmp, Facts.setEx,
    Facts.afterReplace, Facts.afterRead, SrcOk]
  simp [hF.dir, hF.exS, hF.sGood, hf]
  repeat' apply And.intro
  all_goals (apply hk; constructor <;> simp [hF.dir, hF.exS, hF.exV, hF.sGood, hF.loaded])

/-- `set_config` with any edit that keeps the keys (C18 `set_keys_invariant`) -/
theorem setConfig_accepted {post : Facts → Prop} {k : Prog} {f : Doc → Doc} (hf : KeyMono f)
    (hk : ∀ F, Ready F → Ok post F k) (F : Facts) (hF : Ready F) : Ok post F (setConfig f k) := by
  simp only [setConfig, writeAtomic, Ok, Facts.setTmp, Facts.setEx,
    Facts.afterReplace, Facts.afterRead, SrcOk]
  simp [hF.dir, hF.exS, hF.sGood, hf]
  apply hk; constructor <;> simp [hF.dir, hF.exS, hF.exV, hF.sGood, hF.loaded]

/-- `merge_json_union` (soft or hard: the key set only grows, C18 `merge_hard_soft_semantics`) -/
theorem mergeUnion_accepted {post : Facts → Prop} {k : Prog} {f : Doc → Doc} (hf : KeyMono f)
    (hk : ∀ F, Ready F → Ok post F k) (F : Facts) (hF : Ready F) : Ok post F (mergeUnion f k) :=
  setConfig_accepted (k := k) hf hk F hF

theorem showCfg_accepted {post : Facts → Prop} {k : Prog}
    (hk : ∀ F, Ready F → Ok post F k) (F : Facts) (hF : Ready F) : Ok post F (showCfg k) := by
  simp only [showCfg, Ok, Facts.afterRead]
  exact ⟨hF.exS, hk F hF⟩

theorem keyMono_id : KeyMono id := fun _ h => h

theorem keyMono_mergeEdit : KeyMono Drv.C19.mergeEdit := by
  intro d h
  unfold hasDefaults at *
  rw [List.all_eq_true] at *
  intro k hk
  have := h k hk
  simp only [Drv.C19.mergeEdit, List.contains_eq_mem, List.mem_append, decide_eq_true_eq] at this ⊢
  exact Or.inl this

/-- every scenario program the trace correspondence ties to /repo is accepted -/
theorem traced_programs_accepted (name : String) (prog : Prog)
    (h : Drv.C19.scenario "new" name = some prog) : Ok Loaded {} prog := by
  unfold Drv.C19.scenario at h
  split at h <;> first
    | (cases h
       first
        | exact start_accepted done_accepted
        | exact start_accepted (resetAll_accepted done_accepted)
        | exact start_accepted (resetSubset_accepted keyMono_id done_accepted)
        | exact start_accepted (setConfig_accepted keyMono_id done_accepted)
        | exact start_accepted (mergeUnion_accepted keyMono_mergeEdit done_accepted)
        | exact start_accepted (showCfg_accepted (setConfig_accepted keyMono_id (showCfg_accepted done_accepted)))
        | exact start_accepted (showCfg_accepted (setConfig_accepted keyMono_id
            (mergeUnion_accepted keyMono_mergeEdit (showCfg_accepted done_accepted))))
        | exact start_accepted (resetAll_accepted (showCfg_accepted done_accepted))
        | exact start_accepted (resetSubset_accepted keyMono_id (showCfg_accepted done_accepted))
        | exact start_accepted (showCfg_accepted (setConfig_accepted keyMono_id (showCfg_accepted
            (resetSubset_accepted keyMono_id (showCfg_accepted done_accepted)))))
        | exact start_accepted (setConfig_accepted keyMono_id (resetSubset_accepted keyMono_id
            (setConfig_accepted keyMono_id done_accepted))))
    | simp_all

/-- the pinned code before the fix does not follow the discipline (it opens the shared file for writing) -/
theorem old_start_rejected (post : Facts → Prop) (k : Prog) : ¬ Ok post {} (Old.start k) := by
  simp [Old.start, Old.initProg, Ok]

/-! ## the invariant over all runs -/

/-- **safe_init**: a consistent home (in particular an empty one) with any number of processes
about to run accepted programs satisfies the invariant, hence `Safe`. -/
theorem safe_init {post : Facts → Prop} (s : State) (h : Init post s) : PInv post s ∧ Safe s.fs :=
  ⟨init_pinv h, h.1.1⟩

theorem fresh_consistent : Consistent FS.fresh := ⟨Or.inl rfl, fun _ => Or.inl rfl⟩

/-- **step_preserves_safe**: every step of every routine — whichever process takes it, torn or not,
whoever else has written in between — keeps the invariant, hence `Safe`. -/
theorem step_preserves_safe {post : Facts → Prop} (s : State) (h : PInv post s) (i : Nat) (tear : Bool) :
    PInv post (s.sched i tear) ∧ Safe (s.sched i tear).fs :=
  ⟨(sched_pinv h i tear).1, (sched_pinv h i tear).1.1.1⟩

/-- **reachable_safe**: at every instant of every run (any number of processes, any interleaving,
any crash points — a killed process is one that is not scheduled again), the settings file is
absent or a complete JSON document. -/
theorem reachable_safe {post : Facts → Prop} (s : State) (h : Init post s) (sched : List (Nat × Bool)) :
    Safe (run s sched).fs :=
  (run_pinv sched (init_pinv h)).1.1

/-- once every default key is present (or the file is still absent) this stays so -/
theorem reachable_good {post : Facts → Prop} (s : State) (h : Init post s) (hg : Good s.fs)
    (sched : List (Nat × Bool)) : Good (run s sched).fs := by
  have hp := init_pinv h
  clear h
  induction sched generalizing s with
  | nil => exact hg
  | cons e rest ih => exact ih _ ((sched_pinv hp e.1 e.2).2 hg) (sched_pinv hp e.1 e.2).1

/-- **no_process_fails**: in no run does any process fail (no FileExistsError from `mkdir`, no
FileNotFoundError, no JSONDecodeError), whatever the others do or wherever they are killed. -/
theorem no_process_fails {post : Facts → Prop} (s : State) (h : Init post s) (sched : List (Nat × Bool))
    (p : Proc) (hp : p ∈ (run s sched).procs) : p.failed = false := by
  obtain ⟨j, hj⟩ := List.getElem?_of_mem hp
  exact ((run_pinv sched (init_pinv h)).2 j p hj).1

/-- every process that reaches its end has loaded a SETTINGS with every default key -/
theorem finished_process_sees_all_keys (s : State) (h : Init Loaded s) (sched : List (Nat × Bool))
    (j : Nat) (p : Proc) (hp : (run s sched).procs[j]? = some p) (hd : p.prog = .done) :
    ∃ d, p.regs.loaded = some d ∧ hasDefaults d = true := by
  obtain ⟨_, F, hok, hh⟩ := (run_pinv sched (init_pinv h)).2 j p hp
  rw [hd] at hok
  exact hh.loaded hok

theorem size_zero_done (p : Prog) (h : p.size = 0) : p = .done := by
  cases p <;> simp [Prog.size] at h ⊢

theorem sched_self (s : State) (j : Nat) (tear : Bool) (p : Proc) (hp : s.procs[j]? = some p) :
    (s.sched j tear).procs[j]? = some (step j tear p s.fs).1 := by
  have hlt : j < s.procs.length := by
    rcases Nat.lt_or_ge j s.procs.length with h' | h'
    · exact h'
    · rw [List.getElem?_eq_none h'] at hp; cases hp
  have hget : s.procs[j] = p := by
    have := List.getElem?_eq_getElem hlt; rw [this] at hp; exact Option.some.inj hp
  simp [State.sched, hp, hlt, hget]

/-- a process scheduled alone from any invariant state runs to its end without failing -/
theorem solo_finishes {post : Facts → Prop} (n : Nat) (s : State) (h : PInv post s) (j : Nat) (p : Proc)
    (hp : s.procs[j]? = some p) (hn : p.prog.size ≤ n) :
    ∃ q, (run s (List.replicate n (j, false))).procs[j]? = some q ∧ q.prog = .done ∧ q.failed = false := by
  induction n generalizing s p with
  | zero =>
    exact ⟨p, hp, size_zero_done _ (Nat.le_zero.mp hn), (h.2 j p hp).1⟩
  | succ n ih =>
    have h' := (sched_pinv h j false).1
    have hp' := sched_self s j false p hp
    refine ih (s.sched j false) h' _ hp' ?_
    have hnf := (h'.2 j _ hp').1
    by_cases hd : p.prog.isDone = true
    · have : p.prog = .done := by cases hpp : p.prog <;> simp_all [Prog.isDone]
      have hs : (step j false p s.fs).1 = p := by
        obtain ⟨prog, regs, failed⟩ := p
        simp only at this; subst this
        cases failed <;> simp [step]
      rw [hs, this]; simp [Prog.size]
    · have := step_size j false p s.fs hnf (by simpa using hd)
      omega

/-- **start_after_any_run_loads**: after any run from a consistent home — whatever was interleaved
or killed before — any process (in particular one that has not started yet: a fresh
`initialize; update; load`) that is now left to run terminates, does not fail, and has loaded
every default key. -/
theorem start_after_any_run_loads (s : State) (h : Init Loaded s) (sched : List (Nat × Bool))
    (j : Nat) (p : Proc) (hp : (run s sched).procs[j]? = some p) :
    ∃ q, (run (run s sched) (List.replicate p.prog.size (j, false))).procs[j]? = some q ∧
      q.prog = .done ∧ q.failed = false ∧ ∃ d, q.regs.loaded = some d ∧ hasDefaults d = true := by
  have hinv := run_pinv sched (init_pinv h)
  obtain ⟨q, hq, hd, hnf⟩ := solo_finishes _ _ hinv j p hp (Nat.le_refl _)
  refine ⟨q, hq, hd, hnf, ?_⟩
  obtain ⟨_, F, hok, hh⟩ := (run_pinv _ hinv).2 j q hq
  rw [hd] at hok
  exact hh.loaded hok

/-! ## every stored version string other than the current one counts as outdated -/

/-- a home whose assets_version holds *any* string other than `__version__` — older, newer,
lexicographically larger ("v1.9.0" > "v1.31.1"), with trailing white space, empty text of a complete
file — next to a complete (possibly older, key-lacking) settings.json or none is `Consistent`: all the
theorems above apply to it. -/
theorem outdated_home_consistent (fs : FS) (v : String) (hv : v ≠ current)
    (hV : fs.file (.file .V) = .full (.ver v)) (hS : Safe fs) : Consistent fs := by
  refine ⟨hS, fun h => ?_⟩
  rcases h with h | h
  · rw [hV] at h; cases h
  · rw [hV] at h; exact absurd (by injection h with h; injection h) hv

/-- **every_outdated_version_is_upgraded**: whatever string ≠ `__version__` is stored, a start merges
the defaults into the settings (`upgrade d` has every default key and keeps the user's keys), stamps the
current version, and loads every default key — decided by string *inequality*, exactly as the code does. -/
theorem every_outdated_version_is_upgraded (fs : FS) (v : String) (d : Doc) (hv : v ≠ current)
    (hd : fs.dir = true) (hV : fs.file (.file .V) = .full (.ver v)) (hS : fs.file (.file .S) = .full (.doc d)) :
    let s := run ⟨fs, [⟨start .done, {}, false⟩]⟩ (List.replicate 14 (0, false))
    s.procs.map (fun p => (p.failed, p.prog.isDone, p.regs.loaded)) = [(false, true, some (upgrade d))] ∧
    s.fs.file (.file .S) = .full (.doc (upgrade d)) ∧ s.fs.file (.file .V) = .full (.ver current) ∧
    hasDefaults (upgrade d) = true := by
  refine ⟨?_, ?_, ?_, hasDefaults_upgrade d⟩ <;>
    simp [run, State.sched, step, start, initProg, update, load, resetAll, writeAtomic, hd, hV, hS, hv,
      Proc.fail, List.replicate, PRef.path, Src.text, Regs.put, Prog.isDone, FS.set]

/-- the lexicographically larger older stamps are outdated for the model (kernel-evaluated) -/
example : ("v1.9.0" ≠ current) ∧ ("v1.5.0" ≠ current) ∧ ("v9" ≠ current) ∧ ("z" ≠ current) ∧
    ("v1.31.10" ≠ current) ∧ ("v1.31.1 " ≠ current) ∧ ("v1.31.1\n" ≠ current) ∧ ("" ≠ current) := by decide

/-! ## the precondition `Consistent` is necessary -/

/-- **inconsistent_home_stays_incomplete**: a home that evo itself cannot have left behind — a complete
settings.json that lacks default keys next to a *missing* or a *current* assets_version (e.g. the
version file was deleted by hand) — is not `Consistent`, and a start of the repaired code neither
fails nor repairs it: no upgrade is triggered, the process ends with a SETTINGS that lacks those
keys, and the file stays as it was (so every later start sees the same).  Hence "every default key
is loaded" cannot be proved without the precondition; `Safe` (absent or complete JSON) still holds. -/
theorem inconsistent_home_stays_incomplete (fs : FS) (d : Doc) (hd : fs.dir = true)
    (hS : fs.file (.file .S) = .full (.doc d)) (hlack : hasDefaults d = false)
    (hV : fs.file (.file .V) = .absent ∨ fs.file (.file .V) = .full (.ver current)) :
    ¬ Consistent fs ∧ Safe fs ∧
    (let s := run ⟨fs, [⟨start .done, {}, false⟩]⟩ (List.replicate 9 (0, false))
     s.procs.map (fun p => (p.failed, p.prog.isDone, p.regs.loaded)) = [(false, true, some d)] ∧
     s.fs.file (.file .S) = .full (.doc d) ∧ s.fs.file (.file .V) = .full (.ver current)) := by
  refine ⟨?_, Or.inr (by simp [hS, File.isDoc]), ?_⟩
  · intro hc
    rcases hc.2 hV with h | h
    · rw [hS] at h; cases h
    · rw [hS] at h; simp [File.wf, hlack] at h
  · rcases hV with hV | hV <;>
      simp [run, State.sched, step, start, initProg, update, load, resetAll, writeAtomic, hd, hV, hS,
        Proc.fail, List.replicate, PRef.path, Src.text, Regs.put, Prog.isDone]

/-! ## non-vacuity: concrete runs of the repaired programs -/

/-- the hypotheses of `inconsistent_home_stays_incomplete` are satisfiable -/
example : hasDefaults (Evo.Gen.defaultKeys.drop 3) = false := by decide


/-- two first starts on an empty home form an initial state -/
example : Init Loaded ⟨FS.fresh, [⟨start .done, {}, false⟩, ⟨start .done, {}, false⟩]⟩ :=
  ⟨fresh_consistent, fun p hp => by
    simp only [List.mem_cons, List.not_mem_nil, or_false, or_self] at hp
    subst hp; exact ⟨rfl, start_accepted done_accepted⟩⟩

/-- first start alone on an empty home: 14 steps, then settings.json is the complete default document -/
example : ((run ⟨FS.fresh, [⟨start .done, {}, false⟩]⟩ (List.replicate 14 (0, false))).fs.file (.file .S)).wf = true := by
  decide

/-- killed in the middle of the (torn) write of the temp file: settings.json still absent;
the next process initialises and loads -/
example :
    let s := run ⟨FS.fresh, [⟨start .done, {}, false⟩, ⟨start .done, {}, false⟩]⟩
      (List.replicate 9 (0, false) ++ [(0, true)])
    s.fs.file (.file .S) = .absent ∧ s.fs.file (.tmp .S 0) = .torn ∧
    ((run s (List.replicate 14 (1, false))).procs[1]?.map fun p => (p.prog.isDone, p.failed, p.regs.loaded.map hasDefaults))
      = some (true, false, some true) := by
  decide

/-! ## the pinned code before fix 703b53e: kernel-checked counterexamples (finding F4) -/

/-- **settings_unsafe_crash**: first start of the old code on an empty home, killed after its 9th
step (`open(settings.json,'w')` has truncated, nothing written yet): the file exists and is empty. -/
theorem settings_unsafe_crash :
    let s := run ⟨FS.fresh, [⟨Old.start .done, {}, false⟩]⟩ (List.replicate 9 (0, false))
    s.fs.file (.file .S) = .empty ∧ ¬ Safe s.fs := by
  decide

/-- the same with a torn write: a proper prefix of the JSON text is on disk -/
theorem settings_unsafe_torn :
    let s := run ⟨FS.fresh, [⟨Old.start .done, {}, false⟩]⟩ (List.replicate 9 (0, false) ++ [(0, true)])
    s.fs.file (.file .S) = .torn ∧ ¬ Safe s.fs := by
  decide

/-- **later_start_fails_forever**: with an empty (or torn) settings.json next to a current version file
every later start — of the old *and* of the repaired code — fails at the load and leaves the home
as it was, so the next one fails as well.  (This is why `Safe` must hold at every instant.) -/
theorem later_start_fails_forever (fs : FS) (hd : fs.dir = true)
    (hV : fs.file (.file .V) = .full (.ver current))
    (hS : fs.file (.file .S) = .empty ∨ fs.file (.file .S) = .torn) :
    (∀ k, let s := run ⟨fs, [⟨Old.start k, {}, false⟩]⟩ (List.replicate 5 (0, false))
      s.procs.map (·.failed) = [true] ∧ s.fs.dir = true ∧ s.fs.file (.file .V) = fs.file (.file .V) ∧
        s.fs.file (.file .S) = fs.file (.file .S)) ∧
    (∀ k, let s := run ⟨fs, [⟨start k, {}, false⟩]⟩ (List.replicate 5 (0, false))
      s.procs.map (·.failed) = [true] ∧ s.fs.dir = true ∧ s.fs.file (.file .V) = fs.file (.file .V) ∧
        s.fs.file (.file .S) = fs.file (.file .S)) := by
  have hVa : fs.file (.file .V) ≠ .absent := by rw [hV]; simp
  have hSa : fs.file (.file .S) ≠ .absent := by rcases hS with h | h <;> rw [h] <;> simp
  constructor <;> intro k <;> rcases hS with hS | hS <;>
    simp [run, State.sched, step, Old.start, Old.initProg, Old.update, start, initProg, update, load,
      hd, hV, hS, Proc.fail, List.replicate]

/-- **settings_unsafe_race** (load): two first starts of the old code on an empty home; the first has just
truncated settings.json when the second one starts: it sees the file, skips the initialisation and
dies in `json.load`. -/
theorem settings_unsafe_race_load :
    let s := run ⟨FS.fresh, [⟨Old.start .done, {}, false⟩, ⟨Old.start .done, {}, false⟩]⟩
      (List.replicate 9 (0, false) ++ List.replicate 5 (1, false))
    s.procs.map (·.failed) = [false, true] := by
  decide

/-- **settings_unsafe_race** (mkdir): both test `exists()`, both call `mkdir()`: the second raises. -/
theorem settings_unsafe_race_mkdir :
    let s := run ⟨FS.fresh, [⟨Old.start .done, {}, false⟩, ⟨Old.start .done, {}, false⟩]⟩
      [(0, false), (1, false), (0, false), (1, false)]
    s.procs.map (·.failed) = [false, true] := by
  decide

/-- an in-place edit (`evo_config set`) of the old code killed between truncate and write loses the settings -/
theorem old_set_crash_loses_settings :
    let fs0 : FS := ((⟨true, fun _ => .absent⟩ : FS).set (.file .V) (.full (.ver current))).set (.file .S)
      (.full (.doc Evo.Gen.defaultKeys))
    let s := run ⟨fs0, [⟨Old.start (Old.setConfig id .done), {}, false⟩]⟩ (List.replicate 7 (0, false))
    Consistent fs0 ∧ s.fs.file (.file .S) = .empty := by
  decide

end Evo.C19
