/-
C20 — plots draw the trajectory's own coordinates on the labelled axes.
Property theorems about `Evo.Plot` (model of the artist data produced by evo/tools/plot.py) and
about the tables regenerated from the source on every run (`Gen/PlotModes.lean`).
Helper lemmas: `Lemmas/Plot.lean`.  The claim ends at the data handed to matplotlib.
-/
import EvoModel.Lemmas.Plot
import EvoModel.Gen.PlotModes
namespace Evo.C20
open Evo Evo.Plot Evo.Plot.PlotMode

/-! ## the regenerated tables (translator T): what the source says now -/

/-- `plot_mode_to_idx`, evaluated on the tree under test for all 7 modes, is the model's `modeIdx` -/
theorem gen_modeIdx_matches_model :
    Gen.PlotModes.modeIdx = PlotMode.all.map (fun m => (m.name, modeIdx m)) := by decide

/-- the labels `prepare_axis` sets, for all 7 modes × 4 length units, are the model's labels -/
theorem gen_axisLabels_match_model :
    Gen.PlotModes.axisLabels =
      lengthUnits.flatMap (fun u => PlotMode.all.map (fun m => (m.name, u, xLabel m u, yLabel m u, zLabel m u))) := by
  decide

/-- the accepted units are the model's `lengthUnits`; every other unit is refused by the model too -/
theorem gen_units_match_model :
    Gen.PlotModes.lengthUnits = lengthUnits ∧
    ∀ u ∈ Gen.PlotModes.refusedUnits, ∀ m ∈ PlotMode.all, prepareAxisLabels m u = none := by decide

/-- **axis labels name the plotted axes and the configured unit** (over the regenerated tables): in
every row `(mode, unit, xlabel, ylabel, zlabel)` read back from `prepare_axis`, the x / y / z label is
`$a$ (unit)` with `a` the letter of the coordinate index that `plot_mode_to_idx` selects for that
axis of that mode; there is a z label exactly when there is a z index. -/
theorem labels_name_plotted_axes :
    ∀ row ∈ Gen.PlotModes.axisLabels, ∃ e ∈ Gen.PlotModes.modeIdx, e.1 = row.1 ∧
      row.2.2.1 = lengthLabel (axisLetter e.2.1) row.2.1 ∧
      row.2.2.2.1 = lengthLabel (axisLetter e.2.2.1) row.2.1 ∧
      row.2.2.2.2 = e.2.2.2.map (fun z => lengthLabel (axisLetter z) row.2.1) := by decide

/-- every mode × length unit has its row -/
theorem labels_table_complete :
    ∀ m ∈ PlotMode.all, ∀ u ∈ lengthUnits, ∃ row ∈ Gen.PlotModes.axisLabels, row.1 = m.name ∧ row.2.1 = u := by
  decide

/-- the same for the model and *every* unit string -/
theorem labels_name_plotted_axes_model (m : PlotMode) (u : String) :
    xLabel m u = lengthLabel (axisLetter (modeIdx m).1) u ∧
    yLabel m u = lengthLabel (axisLetter (modeIdx m).2.1) u ∧
    zLabel m u = (modeIdx m).2.2.map (fun z => lengthLabel (axisLetter z) u) := by
  cases m <;> simp [xLabel, yLabel, zLabel, modeIdx, axisLetter]

/-- **the mode's name spells the plotted axes** (regenerated table): mode `"ab"` / `"abc"` plots
coordinate `a` on the x axis, `b` on the y axis (and `c` on the z axis) -/
theorem modeIdx_names_axes :
    ∀ e ∈ Gen.PlotModes.modeIdx,
      e.1 = axisLetter e.2.1 ++ axisLetter e.2.2.1 ++ (e.2.2.2.map axisLetter).getD "" ∧
      e.2.1 < 3 ∧ e.2.2.1 < 3 ∧ e.2.1 ≠ e.2.2.1 ∧
      ∀ z, e.2.2.2 = some z → z < 3 ∧ z ≠ e.2.1 ∧ z ≠ e.2.2.1 := by decide

/-- two different planar modes never select the same ordered pair of coordinates -/
theorem modeIdx_injective_on_2d_modes :
    ∀ a ∈ Gen.PlotModes.modeIdx, ∀ b ∈ Gen.PlotModes.modeIdx,
      a.2.2.2 = none → b.2.2.2 = none → a.2.1 = b.2.1 → a.2.2.1 = b.2.2.1 → a.1 = b.1 := by decide

/-- model form of the injectivity -/
theorem modeIdx_injective_on_2d_modes_model (a b : PlotMode) (ha : a.is2d = true) (hb : b.is2d = true)
    (h : modeIdx a = modeIdx b) : a = b := by
  cases a <;> cases b <;> simp_all [modeIdx, PlotMode.is2d]

/-- a z index exists exactly in mode `xyz` (the code tests `plot_mode == PlotMode.xyz`) -/
theorem zIdx_some_iff_xyz (m : PlotMode) : (modeIdx m).2.2.isSome = true ↔ m = xyz := by
  cases m <;> simp [modeIdx]

/-! ## trajectory line, markers -/

/-- the plotted point of a position: its `modeIdx` coordinates, x axis first -/
theorem point_eq {K : Type} (m : PlotMode) (p : V3 K) :
    point m p = coord (modeIdx m).1 p :: coord (modeIdx m).2.1 p ::
      ((modeIdx m).2.2.map (fun z => coord z p)).toList := by
  cases m <;> rfl

/-- **the trajectory line**: point `k` of the line is the `modeIdx` coordinates of pose `k`;
same order, same length -/
theorem trajLine_get {K : Type} (m : PlotMode) (pos : List (V3 K)) (k : Nat) :
    (trajLine m pos)[k]? = pos[k]?.map (point m) := by
  unfold trajLine; exact List.getElem?_map

theorem trajLine_length {K : Type} (m : PlotMode) (pos : List (V3 K)) :
    (trajLine m pos).length = pos.length := by
  unfold trajLine; exact List.length_map _

/-- **start / end markers** sit at the first and the last position (none for an empty trajectory) -/
theorem startEnd_is_first_last {K : Type} (m : PlotMode) (pos : List (V3 K)) (h : 0 < pos.length) :
    startEnd m pos = some (point m pos[0], point m (pos[pos.length - 1]'(by omega))) := by
  unfold startEnd
  rw [List.head?_eq_getElem?, List.getLast?_eq_getElem?, List.getElem?_eq_getElem h,
    List.getElem?_eq_getElem (by omega)]

theorem startEnd_empty {K : Type} (m : PlotMode) : startEnd m ([] : List (V3 K)) = none := rfl

/-! ## segments -/

/-- **consecutive segments**: segment `k` joins elements `k` and `k+1`, and there are no others -/
theorem segments_get {α : Type} (l : List α) (k : Nat) :
    (segments l)[k]? = if h : k + 1 < l.length then some (l[k], l[k + 1]) else none := by
  unfold segments
  have := lineSegs_getElem? 1 (by omega) l k
  simpa using this

theorem segments_length {α : Type} (l : List α) : (segments l).length = l.length - 1 :=
  lineSegs_one_length l

/-- **the `[:-1:2]` / `[1::2]` slicing**: pair `k` consists of elements `2k` and `2k+1` -/
theorem stridePairs_get {α : Type} (l : List α) (k : Nat) :
    (stridePairs l)[k]? = if h : 2 * k + 1 < l.length then some (l[2 * k], l[2 * k + 1]) else none :=
  lineSegs_getElem? 2 (by omega) l k

theorem stridePairs_length {α : Type} (l : List α) : (stridePairs l).length = l.length / 2 :=
  lineSegs_two_length l

/-- `colored_line_collection` refuses exactly when `step > 1` and `len(xyz) ≠ step · len(colors)` -/
theorem coloredLineCollection_refuses_iff {K : Type} (m : PlotMode) (step nc : Nat) (xyz : List (V3 K)) :
    coloredLineCollection m step nc xyz = none ↔ (step > 1 ∧ xyz.length ≠ step * nc) := by
  unfold coloredLineCollection; split <;> simp_all

/-- **colour-mapped / marker segments**: segment `k` of an accepted collection joins the plotted
points of vertices `step·k` and `step·k + 1` -/
theorem coloredLineCollection_get {K : Type} (m : PlotMode) (step nc : Nat) (hs : 0 < step)
    (xyz : List (V3 K)) (segs : List (List K × List K))
    (h : coloredLineCollection m step nc xyz = some segs) (k : Nat) :
    segs[k]? = if h : step * k + 1 < xyz.length
      then some (point m (xyz[step * k]'(by omega)), point m xyz[step * k + 1]) else none := by
  unfold coloredLineCollection at h
  split at h
  · cases h
  · cases h
    rw [List.getElem?_map, lineSegs_getElem? step hs]
    split <;> rfl

/-- **error colours**: in `traj_colormap` segment `k` (poses `k`, `k+1`) is paired with value `k` of
the array — not shifted -/
theorem colormap_segment_value_get {K : Type} (m : PlotMode) (pos : List (V3 K)) (arr : List K) (k : Nat)
    (hk : k + 1 < pos.length) (ha : k < arr.length) :
    (colormapPairs m pos arr)[k]? = some ((point m pos[k], point m pos[k + 1]), arr[k]) := by
  unfold colormapPairs
  rw [List.getElem?_zip_eq_some, List.getElem?_map, segments_get, dif_pos hk]
  exact ⟨rfl, List.getElem?_eq_getElem ha⟩

/-! ## pose-correspondence edges -/

/-- **edge `k` joins pose `k` of the first trajectory with pose `k` of the second** (never two poses
of the same trajectory); one edge per pose -/
theorem correspondence_edge_get {K : Type} (m : PlotMode) (p1 p2 : List (V3 K)) (h : p1.length = p2.length) :
    ∃ segs, corrEdges m p1 p2 = some segs ∧ segs.length = p1.length ∧
      ∀ k (hk : k < p1.length), segs[k]? = some (point m p1[k], point m (p2[k]'(by omega))) := by
  have hl := interleave_length p1 p2 h
  have hc : coloredLineCollection m 2 p1.length (interleave p1 p2)
      = some ((lineSegs 2 (interleave p1 p2)).map (fun s => (point m s.1, point m s.2))) := by
    unfold coloredLineCollection
    rw [if_neg]; rw [hl]; simp
  refine ⟨_, by unfold corrEdges; rw [if_neg (by simpa using h)]; exact hc, ?_, ?_⟩
  · rw [List.length_map, lineSegs_two_length, hl]; omega
  · intro k hk
    rw [coloredLineCollection_get m 2 p1.length (by omega) _ _ hc k, dif_pos (by omega)]
    have e0 := interleave_even p1 p2 h k
    have e1 := interleave_odd p1 p2 h k
    rw [List.getElem?_eq_getElem (by omega), List.getElem?_eq_getElem hk] at e0
    rw [List.getElem?_eq_getElem (by omega), List.getElem?_eq_getElem (by omega)] at e1
    rw [Option.some.inj e0, Option.some.inj e1]

theorem correspondence_refused_when_lengths_differ {K : Type} (m : PlotMode) (p1 p2 : List (V3 K))
    (h : p1.length ≠ p2.length) : corrEdges m p1 p2 = none := by
  unfold corrEdges; rw [if_pos h]

/-! ## coordinate-frame markers -/

/-- the markers are drawn (3 per pose) whenever the scale is positive -/
theorem coordAxes_drawn (m : PlotMode) (scale : Rat) (hs : 0 < scale) (poses : List (Pose Rat)) :
    ∃ segs, coordAxes m scale poses = some (some segs) ∧ segs.length = 3 * poses.length := by
  have hl := coordAxesVertices_length scale poses
  unfold coordAxes
  rw [if_neg (by exact Rat.not_le.mpr hs)]
  unfold coloredLineCollection
  rw [if_neg (by rw [hl]; simp)]
  refine ⟨_, rfl, ?_⟩
  rw [List.length_map, lineSegs_two_length, hl]; omega

theorem coordAxes_nothing_when_scale_nonpositive (m : PlotMode) (scale : Rat) (hs : scale ≤ 0)
    (poses : List (Pose Rat)) : coordAxes m scale poses = none := by
  unfold coordAxes; rw [if_pos hs]

/-- segment `a·n + i` (block `a` = x, y, z markers; `i` = pose) -/
theorem coordAxes_segment (m : PlotMode) (scale : Rat) (poses : List (Pose Rat))
    (segs : List (List Rat × List Rat)) (h : coordAxes m scale poses = some (some segs))
    (a i : Nat) (ha : a < 3) (hi : i < poses.length) :
    segs[a * poses.length + i]? = some (point m poses[i].t, point m (axisTip scale a poses[i])) := by
  unfold coordAxes at h
  split at h
  · cases h
  · have hc := Option.some.inj h
    have hl := coordAxesVertices_length scale poses
    have hlt : a * poses.length + i < 3 * poses.length := by
      have : a * poses.length ≤ 2 * poses.length := Nat.mul_le_mul_right _ (by omega)
      omega
    obtain ⟨g0, g1⟩ := coordAxesVertices_get scale poses a i ha hi
    rw [coloredLineCollection_get m 2 _ (by omega) _ _ hc, dif_pos (by omega)]
    rw [List.getElem?_eq_getElem (by omega)] at g0 g1
    rw [Option.some.inj g0, Option.some.inj g1]

/-- **coordinate-frame markers start at the pose positions** -/
theorem coordAxes_start_is_position (m : PlotMode) (scale : Rat) (poses : List (Pose Rat))
    (segs : List (List Rat × List Rat)) (h : coordAxes m scale poses = some (some segs))
    (a i : Nat) (ha : a < 3) (hi : i < poses.length) :
    (segs[a * poses.length + i]?).map Prod.fst = some (point m poses[i].t) := by
  rw [coordAxes_segment m scale poses segs h a i ha hi]; rfl

/-- **… and point along the pose's own axes**: the marker of axis `a` ends at the position plus
`scale` times column `a` of the pose's rotation block; its colour index is `a` -/
theorem coordAxes_direction_is_pose_axis (m : PlotMode) (scale : Rat) (poses : List (Pose Rat))
    (segs : List (List Rat × List Rat)) (h : coordAxes m scale poses = some (some segs))
    (a i : Nat) (ha : a < 3) (hi : i < poses.length) :
    (segs[a * poses.length + i]?).map Prod.snd
        = some (point m (V3.add poses[i].t (V3.smul scale (colOf poses[i].rot a)))) ∧
    axisColorIdx poses.length (a * poses.length + i) = a := by
  refine ⟨?_, ?_⟩
  · rw [coordAxes_segment m scale poses segs h a i ha hi, axisTip_eq]; rfl
  · unfold axisColorIdx
    rw [Nat.add_comm, Nat.add_mul_div_right _ _ (by omega), Nat.div_eq_of_lt hi]; omega

/-! ## time axis, per-axis plots, speeds, error values -/

/-- **shift by the start time**: with timestamps and a start time `s`, x value `k` is
`rnd (stampₖ − s)` (the stamps themselves when `s = 0`, which is the same number) -/
theorem time_axis_shift (rnd : Rat → Rat) (ts : List Rat) (s : Rat) (n k : Nat) :
    (timeAxis rnd (some ts) (some s) n)[k]? = ts[k]?.map (fun t => if s ≠ 0 then rnd (t - s) else t) := by
  unfold timeAxis
  by_cases h : s = 0 <;> simp [h]

/-- in exact arithmetic (`rnd = id`): x value `k` is `stampₖ − s`, zero start included -/
theorem time_axis_shift_exact (ts : List Rat) (s : Rat) (n k : Nat) :
    (timeAxis id (some ts) (some s) n)[k]? = ts[k]?.map (fun t => t - s) := by
  rw [time_axis_shift]
  by_cases h : s = 0
  · subst h; simp
  · simp [h]

theorem time_axis_no_start (rnd : Rat → Rat) (ts : List Rat) (n : Nat) :
    timeAxis rnd (some ts) none n = ts := rfl

/-- without timestamps the x values are the pose indices `0 … n−1` -/
theorem time_axis_index (rnd : Rat → Rat) (start : Option Rat) (n k : Nat) :
    (timeAxis rnd none start n)[k]? = if k < n then some (k : Rat) else none := by
  unfold timeAxis indexAxis
  rw [List.getElem?_map]
  split
  · next h => rw [List.getElem?_range h]; rfl
  · next h => rw [List.getElem?_eq_none_iff.mpr (by simpa using h)]; rfl

/-- **per-axis position plots**: subplot `i` shows coordinate `i` of pose `k` at x value `k` of the
time axis; as many y as x values when there is one stamp per pose -/
theorem xyzSeries_get (rnd : Rat → Rat) (stamps : Option (List Rat)) (start : Option Rat)
    (pos : List (V3 Rat)) (i k : Nat) :
    (xyzSeries rnd stamps start pos i).1 = timeAxis rnd stamps start pos.length ∧
    (xyzSeries rnd stamps start pos i).2[k]? = pos[k]?.map (coord i) := by
  unfold xyzSeries; exact ⟨rfl, List.getElem?_map⟩

/-- **roll/pitch/yaw plots**: subplot `i` shows `conv(angles[k][i])` at x value `k` -/
theorem rpySeries_get (rnd conv : Rat → Rat) (stamps : Option (List Rat)) (start : Option Rat)
    (ang : List (V3 Rat)) (i k : Nat) :
    (rpySeries rnd conv stamps start ang i).1 = timeAxis rnd stamps start ang.length ∧
    (rpySeries rnd conv stamps start ang i).2[k]? = ang[k]?.map (fun a => conv (coord i a)) := by
  unfold rpySeries; exact ⟨rfl, List.getElem?_map⟩

/-- **speed `k` (between poses `k` and `k+1`) is shown at the stamp of the newer pose `k+1`** -/
theorem speed_at_newer_stamp (rnd : Rat → Rat) (ts : List Rat) (start : Option Rat) (sp : List Rat) (k : Nat) :
    (speedSeries rnd ts start sp).1[k]? = (timeAxis rnd (some ts) start ts.length)[k + 1]? ∧
    (speedSeries rnd ts start sp).2[k]? = sp[k]? := by
  unfold speedSeries
  refine ⟨?_, rfl⟩
  rw [List.getElem?_drop, Nat.add_comm]

/-- rational core of speed `k`: squared distance and time difference of poses `k`, `k+1` -/
theorem speedCores_get (pos : List (V3 Rat)) (ts : List Rat) (k : Nat)
    (hp : k + 1 < pos.length) (ht : k + 1 < ts.length) :
    (speedCores pos ts)[k]? = some (V3.normSq (V3.sub pos[k + 1] pos[k]), ts[k + 1] - ts[k]) := by
  induction k generalizing pos ts with
  | zero =>
    match pos, ts, hp, ht with
    | p1 :: p2 :: ps, t1 :: t2 :: tr, _, _ => simp [speedCores]
  | succ k ih =>
    match pos, ts, hp, ht with
    | p1 :: p2 :: ps, t1 :: t2 :: tr, hp, ht =>
      simp only [speedCores, List.getElem?_cons_succ]
      rw [ih (p2 :: ps) (t2 :: tr) (by simpa using hp) (by simpa using ht)]
      simp

/-- **error values against the given x array, in order** -/
theorem errorSeries_get (rnd : Rat → Rat) (err x : List Rat) :
    errorSeries rnd err (some x) false = (x, err) := rfl

/-- without an x array: against the index -/
theorem errorSeries_index (rnd : Rat → Rat) (err : List Rat) (k : Nat) :
    (errorSeries rnd err none false).2 = err ∧
    (errorSeries rnd err none false).1[k]? = if k < err.length then some (k : Rat) else none := by
  refine ⟨rfl, ?_⟩
  have := time_axis_index rnd none err.length k
  simpa [timeAxis, errorSeries] using this

/-! ## non-vacuity: concrete instances -/

def p0 : V3 Rat := ⟨1, 2, 3⟩
def p1 : V3 Rat := ⟨4, 5, 6⟩
def p2 : V3 Rat := ⟨7, 8, 10⟩
/-- rotation by 90° about z, at (1,2,3) -/
def q0 : Pose Rat := ⟨⟨0, -1, 0, 1, 0, 0, 0, 0, 1⟩, p0⟩

example : trajLine zx [p0, p1, p2] = [[3, 1], [6, 4], [10, 7]] := by decide
example : trajLine xyz [p0, p1] = [[1, 2, 3], [4, 5, 6]] := by decide
example : startEnd yz [p0, p1, p2] = some ([2, 3], [8, 10]) := by decide
example : segments [p0, p1, p2] = [(p0, p1), (p1, p2)] := by decide
example : stridePairs [p0, p1, p2, p0] = [(p0, p1), (p2, p0)] := by decide
example : coloredLineCollection xy 2 3 [p0, p1, p2] = none := by decide
example : corrEdges xz [p0, p1] [p2, p0] = some [([1, 3], [7, 10]), ([4, 6], [1, 3])] := by decide
example : colormapPairs xy [p0, p1, p2] [(5 : Rat), 6, 7] = [(([1, 2], [4, 5]), 5), (([4, 5], [7, 8]), 6)] := by
  decide
/-- the x marker of a pose rotated by 90° about z points along +y of the plot, the y marker along −x -/
example : coordAxes xy (1 / 2) [q0] =
    some (some [([1, 2], [1, 5 / 2]), ([1, 2], [1 / 2, 2]), ([1, 2], [1, 2])]) := by decide +kernel
example : timeAxis id (some [10, 11, 13]) (some (5 / 2)) 3 = [15 / 2, 17 / 2, 21 / 2] := by decide +kernel
example : timeAxis id none (some 3) 3 = [0, 1, 2] := by decide +kernel
example : speedSeries id [10, 11, 13] (some 10) [4, 5] = ([1, 3], [4, 5]) := by decide +kernel
example : speedCores [p0, p1, p2] [10, 11, 13] = [(27, 1), (34, 2)] := by decide +kernel
example : errorSeries id [1, 2, 4] none true = ([0, 1, 2], [1, 3, 7]) := by decide +kernel
example : prepareAxisLabels zx "mm" = some ("$z$ (mm)", "$x$ (mm)", none) := by decide
example : prepareAxisLabels zx "deg" = none := by decide

end Evo.C20
