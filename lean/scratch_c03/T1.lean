import EvoModel.Lemmas.TraceMax
import Mathlib.Algebra.Order.Ring.Rat
open Evo Evo.Ume
example (a b : Rat) : a ≤ max a b := le_max_left a b
example (a : Rat) : 0 ≤ absR a := by unfold absR; split_ifs <;> linarith
example (x : List (V3 Rat)) : (cnt x : Rat) = (x.length : ℚ) := rfl
#check @cnt
example (x : List (V3 ℚ)) : mean x = ⟨sumMap V3.x x / cnt x, sumMap V3.y x / cnt x, sumMap V3.z x / cnt x⟩ := rfl
variable {K : Type} [Field K] [LinearOrder K] [IsStrictOrderedRing K]
example (x : List (V3 K)) : mean x = ⟨sumMap V3.x x / cnt x, sumMap V3.y x / cnt x, sumMap V3.z x / cnt x⟩ := rfl
