import EvoModel.Lemmas.TraceMax
import Mathlib.Algebra.Order.Ring.Rat
namespace Evo.Ume
open Evo

set_option linter.unusedSectionVars false
set_option linter.unusedVariables false

section field
variable {K : Type} [Field K]

/-! ### finite sums over lists -/

theorem sumMap_nil {α : Type} (f : α → K) : sumMap f [] = 0 := rfl
theorem sumMap_cons {α : Type} (f : α → K) (a : α) (l : List α) : sumMap f (a :: l) = f a + sumMap f l := rfl

theorem sumMap_congr {α : Type} {f g : α → K} (l : List α) (h : ∀ a, f a = g a) : sumMap f l = sumMap g l := by
  induction l with
  | nil => rfl
  | cons a l ih => simp only [sumMap_cons, ih, h]

theorem sumMap_add {α : Type} (f g : α → K) (l : List α) :
    sumMap (fun a => f a + g a) l = sumMap f l + sumMap g l := by
  induction l with
  | nil => simp [sumMap_nil]
  | cons a l ih => simp only [sumMap_cons, ih]; ring

theorem sumMap_sub {α : Type} (f g : α → K) (l : List α) :
    sumMap (fun a => f a - g a) l = sumMap f l - sumMap g l := by
  induction l with
  | nil => simp [sumMap_nil]
  | cons a l ih => simp only [sumMap_cons, ih]; ring

theorem sumMap_mul_left {α : Type} (c : K) (f : α → K) (l : List α) :
    sumMap (fun a => c * f a) l = c * sumMap f l := by
  induction l with
  | nil => simp [sumMap_nil]
  | cons a l ih => simp only [sumMap_cons, ih]; ring

theorem sumMap_const {α : Type} (c : K) (l : List α) : sumMap (fun _ => c) l = cnt l * c := by
  induction l with
  | nil => simp [sumMap_nil, cnt]
  | cons a l ih => simp only [sumMap_cons, ih, cnt, List.length_cons, Nat.cast_succ]; ring

theorem sumMap_zip_fst {α β : Type} (f : α → K) (x : List α) (y : List β) (h : x.length = y.length) :
    sumMap (fun p : α × β => f p.1) (x.zip y) = sumMap f x := by
  induction x generalizing y with
  | nil => rfl
  | cons a x ih =>
    cases y with
    | nil => simp at h
    | cons b y =>
      simp only [List.zip_cons_cons, sumMap_cons]
      rw [ih y (by simpa using h)]

theorem sumMap_zip_snd {α β : Type} (f : β → K) (x : List α) (y : List β) (h : x.length = y.length) :
    sumMap (fun p : α × β => f p.2) (x.zip y) = sumMap f y := by
  induction x generalizing y with
  | nil => cases y with
    | nil => rfl
    | cons b y => simp at h
  | cons a x ih =>
    cases y with
    | nil => simp at h
    | cons b y =>
      simp only [List.zip_cons_cons, sumMap_cons]
      rw [ih y (by simpa using h)]

theorem cnt_zip {α β : Type} (x : List α) (y : List β) (h : x.length = y.length) :
    (cnt (x.zip y) : K) = cnt x := by
  simp [cnt, List.length_zip, h]

/-- centred first components sum to zero -/
theorem sumMap_center_fst {α β : Type} (f : α → K) (x : List α) (y : List β) (h : x.length = y.length)
    (hn : (cnt x : K) ≠ 0) :
    sumMap (fun p : α × β => f p.1 - sumMap f x / cnt x) (x.zip y) = 0 := by
  rw [sumMap_sub, sumMap_zip_fst f x y h, sumMap_const, cnt_zip x y h]
  field_simp
  ring

theorem sumMap_center_snd {α β : Type} (f : β → K) (x : List α) (y : List β) (h : x.length = y.length)
    (hn : (cnt x : K) ≠ 0) :
    sumMap (fun p : α × β => f p.2 - sumMap f y / cnt y) (x.zip y) = 0 := by
  have hc : (cnt y : K) = cnt x := by simp [cnt, h]
  rw [sumMap_sub, sumMap_zip_snd f x y h, sumMap_const, cnt_zip x y h, hc]
  field_simp
  ring

end field
end Evo.Ume
