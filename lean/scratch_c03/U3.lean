import EvoModel.Lemmas.TraceMax
import Mathlib.Algebra.Order.Ring.Rat
namespace Evo.Ume
open Evo

set_option linter.unusedSectionVars false
set_option linter.unusedVariables false

section field
variable {K : Type} [Field K]

/-! ### finite sums over lists -/

theorem sumMap_nil {α : Type} (f : α → K) : sumMap f [] = 0 := rfl
theorem sumMap_cons {α : Type} (f : α → K) (a : α) (l : List α) : sumMap f (a :: l) = f a + sumMap f l := rfl

theorem sumMap_congr {α : Type} {f g : α → K} (l : List α) (h : ∀ a, f a = g a) : sumMap f l = sumMap g l := by
  induction l with
  | nil => rfl
  | cons a l ih => simp only [sumMap_cons, ih, h]

theorem sumMap_add {α : Type} (f g : α → K) (l : List α) :
    sumMap (fun a => f a + g a) l = sumMap f l + sumMap g l := by
  induction l with
  | nil => simp [sumMap_nil]
  | cons a l ih => simp only [sumMap_cons, ih]; ring

theorem sumMap_sub {α : Type} (f g : α → K) (l : List α) :
    sumMap (fun a => f a - g a) l = sumMap f l - sumMap g l := by
  induction l with
  | nil => simp [sumMap_nil]
  | cons a l ih => simp only [sumMap_cons, ih]; ring

theorem sumMap_mul_left {α : Type} (c : K) (f : α → K) (l : List α) :
    sumMap (fun a => c * f a) l = c * sumMap f l := by
  induction l with
  | nil => simp [sumMap_nil]
  | cons a l ih => simp only [sumMap_cons, ih]; ring

theorem sumMap_const {α : Type} (c : K) (l : List α) : sumMap (fun _ => c) l = cnt l * c := by
  induction l with
  | nil => simp [sumMap_nil, cnt]
  | cons a l ih => simp only [sumMap_cons, ih, cnt, List.length_cons, Nat.cast_succ]; ring

theorem sumMap_zip_fst {α β : Type} (f : α → K) (x : List α) (y : List β) (h : x.length = y.length) :
    sumMap (fun p : α × β => f p.1) (x.zip y) = sumMap f x := by
  induction x generalizing y with
  | nil => rfl
  | cons a x ih =>
    cases y with
    | nil => simp at h
    | cons b y =>
      simp only [List.zip_cons_cons, sumMap_cons]
      rw [ih y (by simpa using h)]

theorem sumMap_zip_snd {α β : Type} (f : β → K) (x : List α) (y : List β) (h : x.length = y.length) :
    sumMap (fun p : α × β => f p.2) (x.zip y) = sumMap f y := by
  induction x generalizing y with
  | nil => cases y with
    | nil => rfl
    | cons b y => simp at h
  | cons a x ih =>
    cases y with
    | nil => simp at h
    | cons b y =>
      simp only [List.zip_cons_cons, sumMap_cons]
      rw [ih y (by simpa using h)]

theorem cnt_zip {α β : Type} (x : List α) (y : List β) (h : x.length = y.length) :
    (cnt (x.zip y) : K) = cnt x := by
  simp [cnt, List.length_zip, h]

/-- centred first components sum to zero -/
theorem sumMap_center_fst {α β : Type} (f : α → K) (x : List α) (y : List β) (h : x.length = y.length)
    (hn : (cnt x : K) ≠ 0) :
    sumMap (fun p : α × β => f p.1 - sumMap f x / cnt x) (x.zip y) = 0 := by
  rw [sumMap_sub, sumMap_zip_fst f x y h, sumMap_const, cnt_zip x y h]
  field_simp
  ring

theorem sumMap_center_snd {α β : Type} (f : β → K) (x : List α) (y : List β) (h : x.length = y.length)
    (hn : (cnt x : K) ≠ 0) :
    sumMap (fun p : α × β => f p.2 - sumMap f y / cnt y) (x.zip y) = 0 := by
  have hc : (cnt y : K) = cnt x := by simp [cnt, h]
  rw [sumMap_sub, sumMap_zip_snd f x y h, sumMap_const, cnt_zip x y h, hc]
  field_simp
  ring

end field

section field2
variable {K : Type} [Field K]

/-- pointwise completion of the square, every term a constant times a monomial in the centred coordinates -/
theorem resid_pointwise (R : M3 K) (hR : IsOrtho R) (t mx my : V3 K) (c : K) (px py : V3 K) :
    V3.normSq (V3.sub py (simApply R t c px)) =
      V3.normSq (V3.sub py my) + c^2 * V3.normSq (V3.sub px mx)
      + V3.normSq (V3.sub t (V3.sub my (V3.smul c (M3.mulVec R mx))))
      - 2 * c * (R.a00 * ((py.x - my.x) * (px.x - mx.x)) + R.a01 * ((py.x - my.x) * (px.y - mx.y))
          + R.a02 * ((py.x - my.x) * (px.z - mx.z)) + R.a10 * ((py.y - my.y) * (px.x - mx.x))
          + R.a11 * ((py.y - my.y) * (px.y - mx.y)) + R.a12 * ((py.y - my.y) * (px.z - mx.z))
          + R.a20 * ((py.z - my.z) * (px.x - mx.x)) + R.a21 * ((py.z - my.z) * (px.y - mx.y))
          + R.a22 * ((py.z - my.z) * (px.z - mx.z)))
      + 2 * ((my.x - c * (R.a00 * mx.x + R.a01 * mx.y + R.a02 * mx.z) - t.x) * (py.x - my.x)
          + (my.y - c * (R.a10 * mx.x + R.a11 * mx.y + R.a12 * mx.z) - t.y) * (py.y - my.y)
          + (my.z - c * (R.a20 * mx.x + R.a21 * mx.y + R.a22 * mx.z) - t.z) * (py.z - my.z))
      - 2 * c * (((my.x - c * (R.a00 * mx.x + R.a01 * mx.y + R.a02 * mx.z) - t.x) * R.a00
            + (my.y - c * (R.a10 * mx.x + R.a11 * mx.y + R.a12 * mx.z) - t.y) * R.a10
            + (my.z - c * (R.a20 * mx.x + R.a21 * mx.y + R.a22 * mx.z) - t.z) * R.a20) * (px.x - mx.x)
          + ((my.x - c * (R.a00 * mx.x + R.a01 * mx.y + R.a02 * mx.z) - t.x) * R.a01
            + (my.y - c * (R.a10 * mx.x + R.a11 * mx.y + R.a12 * mx.z) - t.y) * R.a11
            + (my.z - c * (R.a20 * mx.x + R.a21 * mx.y + R.a22 * mx.z) - t.z) * R.a21) * (px.y - mx.y)
          + ((my.x - c * (R.a00 * mx.x + R.a01 * mx.y + R.a02 * mx.z) - t.x) * R.a02
            + (my.y - c * (R.a10 * mx.x + R.a11 * mx.y + R.a12 * mx.z) - t.y) * R.a12
            + (my.z - c * (R.a20 * mx.x + R.a21 * mx.y + R.a22 * mx.z) - t.z) * R.a22) * (px.z - mx.z)) := by
  obtain ⟨h00, h01, h02, h11, h12, h22⟩ := hR.eqs
  simp only [simApply, V3.normSq, V3.dot, V3.sub, V3.add, V3.smul, M3.mulVec]
  linear_combination (c^2 * ((px.x - mx.x) * (px.x - mx.x))) * h00
    + (c^2 * (2 * (px.x - mx.x) * (px.y - mx.y))) * h01
    + (c^2 * (2 * (px.x - mx.x) * (px.z - mx.z))) * h02
    + (c^2 * ((px.y - mx.y) * (px.y - mx.y))) * h11
    + (c^2 * (2 * (px.y - mx.y) * (px.z - mx.z))) * h12
    + (c^2 * ((px.z - mx.z) * (px.z - mx.z))) * h22

end field2

section field3
variable {K : Type} [Field K]

/-- **completing the square**: for orthonormal `R`,
`resid = n·(σ_y² + c²σ_x² − 2c·tr(Rᵀ·cov)) + n·‖t − (μ_y − c·R·μ_x)‖²` -/
theorem resid_decomp (x y : List (V3 K)) (R : M3 K) (t : V3 K) (c : K)
    (hlen : x.length = y.length) (hn : (cnt x : K) ≠ 0) (hR : IsOrtho R) :
    resid x y R t c = cnt x * (var y + c^2 * var x - 2 * c * (amat x y R).trace)
      + cnt x * V3.normSq (V3.sub t (tFormula x y R c)) := by
  have hcy : (cnt y : K) = cnt x := by simp [cnt, hlen]
  unfold resid
  refine (sumMap_congr (x.zip y) (fun p : V3 K × V3 K => resid_pointwise R hR t (mean x) (mean y) c p.1 p.2)).trans ?_
  simp only [sumMap_add, sumMap_sub, sumMap_mul_left, sumMap_const]
  have ux : sumMap (fun p : V3 K × V3 K => p.2.x) (x.zip y) - cnt (x.zip y) * (mean y).x = 0 := by
    rw [sumMap_zip_snd V3.x x y hlen, cnt_zip x y hlen]
    show _ - cnt x * (sumMap V3.x y / cnt y) = 0
    rw [hcy]; field_simp
    ring
  have uy : sumMap (fun p : V3 K × V3 K => p.2.y) (x.zip y) - cnt (x.zip y) * (mean y).y = 0 := by
    rw [sumMap_zip_snd V3.y x y hlen, cnt_zip x y hlen]
    show _ - cnt x * (sumMap V3.y y / cnt y) = 0
    rw [hcy]; field_simp
    ring
  have uz : sumMap (fun p : V3 K × V3 K => p.2.z) (x.zip y) - cnt (x.zip y) * (mean y).z = 0 := by
    rw [sumMap_zip_snd V3.z x y hlen, cnt_zip x y hlen]
    show _ - cnt x * (sumMap V3.z y / cnt y) = 0
    rw [hcy]; field_simp
    ring
  have vx : sumMap (fun p : V3 K × V3 K => p.1.x) (x.zip y) - cnt (x.zip y) * (mean x).x = 0 := by
    rw [sumMap_zip_fst V3.x x y hlen, cnt_zip x y hlen]
    show _ - cnt x * (sumMap V3.x x / cnt x) = 0
    field_simp
    ring
  have vy : sumMap (fun p : V3 K × V3 K => p.1.y) (x.zip y) - cnt (x.zip y) * (mean x).y = 0 := by
    rw [sumMap_zip_fst V3.y x y hlen, cnt_zip x y hlen]
    show _ - cnt x * (sumMap V3.y x / cnt x) = 0
    field_simp
    ring
  have vz : sumMap (fun p : V3 K × V3 K => p.1.z) (x.zip y) - cnt (x.zip y) * (mean x).z = 0 := by
    rw [sumMap_zip_fst V3.z x y hlen, cnt_zip x y hlen]
    show _ - cnt x * (sumMap V3.z x / cnt x) = 0
    field_simp
    ring
  have g1 : sumMap (fun p : V3 K × V3 K => V3.normSq (V3.sub p.2 (mean y))) (x.zip y) = cnt x * var y := by
    have := sumMap_zip_snd (fun q => V3.normSq (V3.sub q (mean y))) x y hlen
    rw [this, var, hcy]
    field_simp
  have g2 : sumMap (fun p : V3 K × V3 K => V3.normSq (V3.sub p.1 (mean x))) (x.zip y) = cnt x * var x := by
    have := sumMap_zip_fst (fun q => V3.normSq (V3.sub q (mean x))) x y hlen
    rw [this, var]
    field_simp
  rw [ux, uy, uz, vx, vy, vz, g1, g2, cnt_zip x y hlen]
  have e00 : sumMap (fun p : V3 K × V3 K => (p.2.x - (mean y).x) * (p.1.x - (mean x).x)) (x.zip y) = cnt x * (cov x y).a00 := by
    show _ = cnt x * (1 / cnt x * _); field_simp; rfl
  have e01 : sumMap (fun p : V3 K × V3 K => (p.2.x - (mean y).x) * (p.1.y - (mean x).y)) (x.zip y) = cnt x * (cov x y).a01 := by
    show _ = cnt x * (1 / cnt x * _); field_simp; rfl
  have e02 : sumMap (fun p : V3 K × V3 K => (p.2.x - (mean y).x) * (p.1.z - (mean x).z)) (x.zip y) = cnt x * (cov x y).a02 := by
    show _ = cnt x * (1 / cnt x * _); field_simp; rfl
  have e10 : sumMap (fun p : V3 K × V3 K => (p.2.y - (mean y).y) * (p.1.x - (mean x).x)) (x.zip y) = cnt x * (cov x y).a10 := by
    show _ = cnt x * (1 / cnt x * _); field_simp; rfl
  have e11 : sumMap (fun p : V3 K × V3 K => (p.2.y - (mean y).y) * (p.1.y - (mean x).y)) (x.zip y) = cnt x * (cov x y).a11 := by
    show _ = cnt x * (1 / cnt x * _); field_simp; rfl
  have e12 : sumMap (fun p : V3 K × V3 K => (p.2.y - (mean y).y) * (p.1.z - (mean x).z)) (x.zip y) = cnt x * (cov x y).a12 := by
    show _ = cnt x * (1 / cnt x * _); field_simp; rfl
  have e20 : sumMap (fun p : V3 K × V3 K => (p.2.z - (mean y).z) * (p.1.x - (mean x).x)) (x.zip y) = cnt x * (cov x y).a20 := by
    show _ = cnt x * (1 / cnt x * _); field_simp; rfl
  have e21 : sumMap (fun p : V3 K × V3 K => (p.2.z - (mean y).z) * (p.1.y - (mean x).y)) (x.zip y) = cnt x * (cov x y).a21 := by
    show _ = cnt x * (1 / cnt x * _); field_simp; rfl
  have e22 : sumMap (fun p : V3 K × V3 K => (p.2.z - (mean y).z) * (p.1.z - (mean x).z)) (x.zip y) = cnt x * (cov x y).a22 := by
    show _ = cnt x * (1 / cnt x * _); field_simp; rfl
  rw [e00, e01, e02, e10, e11, e12, e20, e21, e22]
  simp only [amat, tFormula, M3.trace, M3.mul, M3.transpose]
  ring

end field3
end Evo.Ume
