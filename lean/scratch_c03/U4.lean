import EvoModel.Lemmas.Umeyama
namespace Evo.Ume
open Evo

section rat

theorem absR_nonneg (a : Rat) : 0 ≤ absR a := by unfold absR; split_ifs <;> linarith

theorem absR_le_zero {a : Rat} (h : absR a ≤ 0) : a = 0 := by
  unfold absR at h; split_ifs at h <;> linarith

theorem linfV_le_zero {v : V3 Rat} (h : linfV v ≤ 0) : v = V3.zero := by
  unfold linfV at h
  simp only [max_le_iff] at h
  obtain ⟨h1, h2, h3⟩ := h
  ext
  · exact absR_le_zero h1
  · exact absR_le_zero h2
  · exact absR_le_zero h3

theorem linfM_le_zero {m : M3 Rat} (h : linfM m ≤ 0) : m = M3.zero := by
  unfold linfM at h
  simp only [max_le_iff] at h
  obtain ⟨⟨⟨h1, h2⟩, h3, h4⟩, ⟨h5, h6⟩, ⟨h7, h8⟩, h9⟩ := h
  ext
  · exact absR_le_zero h1
  · exact absR_le_zero h2
  · exact absR_le_zero h3
  · exact absR_le_zero h4
  · exact absR_le_zero h5
  · exact absR_le_zero h6
  · exact absR_le_zero h7
  · exact absR_le_zero h8
  · exact absR_le_zero h9

theorem M3.sub_eq_zero {a b : M3 Rat} (h : M3.sub a b = M3.zero) : a = b := by
  have e := fun (f : M3 Rat → Rat) => congrArg f h
  ext
  · have := e M3.a00; simp only [M3.sub, M3.zero] at this; linarith
  · have := e M3.a01; simp only [M3.sub, M3.zero] at this; linarith
  · have := e M3.a02; simp only [M3.sub, M3.zero] at this; linarith
  · have := e M3.a10; simp only [M3.sub, M3.zero] at this; linarith
  · have := e M3.a11; simp only [M3.sub, M3.zero] at this; linarith
  · have := e M3.a12; simp only [M3.sub, M3.zero] at this; linarith
  · have := e M3.a20; simp only [M3.sub, M3.zero] at this; linarith
  · have := e M3.a21; simp only [M3.sub, M3.zero] at this; linarith
  · have := e M3.a22; simp only [M3.sub, M3.zero] at this; linarith

theorem V3.sub_eq_zero {a b : V3 Rat} (h : V3.sub a b = V3.zero) : a = b := by
  have e := fun (f : V3 Rat → Rat) => congrArg f h
  ext
  · have := e V3.x; simp only [V3.sub, V3.zero] at this; linarith
  · have := e V3.y; simp only [V3.sub, V3.zero] at this; linarith
  · have := e V3.z; simp only [V3.sub, V3.zero] at this; linarith

/-- orthonormal with `det ≥ 1` is a proper rotation -/
theorem isRot_of_ortho_det {R : M3 Rat} (h : IsOrtho R) (hd : 1 ≤ R.det) : IsRot R := by
  refine ⟨h, ?_⟩
  have h2 : R.det * R.det = 1 := by
    have := congrArg M3.det h
    rw [M3.det_mul, M3.det_transpose, M3.det_one] at this
    exact this
  nlinarith

theorem bmat_symm {A : M3 Rat} (h : A.transpose = A) : (bmat A).transpose = bmat A := by
  have s01 : A.a10 = A.a01 := by have := congrArg M3.a01 h; simpa [M3.transpose] using this
  have s02 : A.a20 = A.a02 := by have := congrArg M3.a02 h; simpa [M3.transpose] using this
  have s12 : A.a21 = A.a12 := by have := congrArg M3.a12 h; simpa [M3.transpose] using this
  ext <;> simp only [bmat, M3.transpose, M3.sub, M3.smul, M3.one, M3.trace] <;> simp [s01, s02, s12]

/-- reading of the executable certificate at `ε = 0` -/
theorem cert_of_umeCert {ws : Bool} {x y : List (V3 Rat)} {R : M3 Rat} {t : V3 Rat} {c : Rat}
    (h : umeCert 0 ws x y R t c = true) : Cert ws x y R t c := by
  unfold umeCert at h
  simp only [Bool.and_eq_true] at h
  obtain ⟨⟨⟨⟨⟨ho, hd⟩, ht⟩, hs⟩, hp⟩, hc⟩ := h
  have hO : IsOrtho R := by
    unfold certOrtho at ho
    exact M3.sub_eq_zero (linfM_le_zero (of_decide_eq_true ho))
  have hD : 1 ≤ R.det := by
    unfold certDet at hd
    have := of_decide_eq_true hd
    linarith
  have hS : (amat x y R).transpose = amat x y R := by
    unfold certSym at hs
    have := of_decide_eq_true hs
    simp only [zero_mul] at this
    exact (M3.sub_eq_zero (linfM_le_zero this)).symm
  refine ⟨isRot_of_ortho_det hO hD, ?_, hS, ?_, ?_⟩
  · unfold certT at ht
    have := of_decide_eq_true ht
    simp only [zero_mul] at this
    exact V3.sub_eq_zero (linfV_le_zero this)
  · unfold certPsd at hp
    simp only [Bool.and_eq_true, decide_eq_true_eq, zero_mul, neg_zero] at hp
    obtain ⟨⟨⟨⟨⟨⟨p0, p1⟩, p2⟩, p3⟩, p4⟩, p5⟩, p6⟩ := hp
    exact psd_of_minors _ (bmat_symm hS) p0 p1 p2 p3 p4 p5 p6
  · unfold certScale at hc
    cases ws with
    | true =>
      simp only [if_true, Bool.and_eq_true, decide_eq_true_eq, zero_mul] at hc ⊢
      exact ⟨by have := absR_le_zero hc.1; linarith, hc.2⟩
    | false =>
      simp only [Bool.false_eq_true, if_false, decide_eq_true_eq] at hc ⊢
      exact hc

end rat
end Evo.Ume
