import EvoModel.Lemmas.Umeyama
namespace Evo.Ume
open Evo

section refuse

theorem sumMap_zero_of_mem {α : Type} {f : α → Rat} {l : List α} (h : ∀ a ∈ l, f a = 0) : sumMap f l = 0 := by
  induction l with
  | nil => rfl
  | cons a l ih =>
    rw [sumMap_cons, h a (by simp), ih (fun b hb => h b (by simp [hb]))]; simp

theorem sumMap_const_of_mem {α : Type} {f : α → Rat} {l : List α} (c : Rat) (h : ∀ a ∈ l, f a = c) :
    sumMap f l = cnt l * c := by
  induction l with
  | nil => simp [sumMap_nil, cnt]
  | cons a l ih =>
    rw [sumMap_cons, h a (by simp), ih (fun b hb => h b (by simp [hb]))]
    simp only [cnt, List.length_cons, Nat.cast_succ]; ring

/-- entry of the covariance: zero as soon as every summand is -/
theorem cov_entry_zero (n : Rat) {l : List (V3 Rat × V3 Rat)} {g : V3 Rat × V3 Rat → Rat}
    (h : ∀ p ∈ l, g p = 0) : 1 / n * sumMap g l = 0 := by
  rw [sumMap_zero_of_mem h]; simp

theorem mean_of_const {x : List (V3 Rat)} {a : V3 Rat} (hne : x ≠ []) (h : ∀ p ∈ x, p = a) : mean x = a := by
  have hn : (cnt x : Rat) ≠ 0 := (cnt_pos x hne).ne'
  have hx := sumMap_const_of_mem (f := V3.x) a.x (fun p hp => by rw [h p hp])
  have hy := sumMap_const_of_mem (f := V3.y) a.y (fun p hp => by rw [h p hp])
  have hz := sumMap_const_of_mem (f := V3.z) a.z (fun p hp => by rw [h p hp])
  unfold mean
  rw [hx, hy, hz]
  ext <;> simp only [] <;> field_simp

theorem allCoincident_spec {x : List (V3 Rat)} (h : allCoincident x = true) (hne : x ≠ []) :
    ∃ a, ∀ p ∈ x, p = a := by
  cases x with
  | nil => exact absurd rfl hne
  | cons a l =>
    refine ⟨a, ?_⟩
    simp only [allCoincident, List.all_eq_true, beq_iff_eq] at h
    intro p hp
    rcases List.mem_cons.mp hp with rfl | hp
    · rfl
    · exact h p hp

theorem rankLt2_zero : rankLt2 (M3.zero : M3 Rat) = true := by
  simp [rankLt2, minors2, M3.zero]

theorem cov_zero_of_fst {x y : List (V3 Rat)} (h : ∀ p ∈ x, V3.sub p (mean x) = V3.zero) :
    cov x y = M3.zero := by
  have hz : ∀ p ∈ x.zip y, V3.sub p.1 (mean x) = V3.zero := fun p hp => h p.1 (List.of_mem_zip hp).1
  unfold cov
  ext <;> (simp only [M3.zero]; apply cov_entry_zero; intro p hp; rw [hz p hp]; simp [V3.zero])

theorem cov_zero_of_snd {x y : List (V3 Rat)} (h : ∀ p ∈ y, V3.sub p (mean y) = V3.zero) :
    cov x y = M3.zero := by
  have hz : ∀ p ∈ x.zip y, V3.sub p.2 (mean y) = V3.zero := fun p hp => h p.2 (List.of_mem_zip hp).2
  unfold cov
  ext <;> (simp only [M3.zero]; apply cov_entry_zero; intro p hp; rw [hz p hp]; simp [V3.zero])

theorem sub_self_zero (a : V3 Rat) : V3.sub a a = V3.zero := by
  ext <;> simp [V3.sub, V3.zero]

theorem refuses_of_coincident_fst {x y : List (V3 Rat)} (h : allCoincident x = true) : rankLt2 (cov x y) = true := by
  by_cases hne : x = []
  · subst hne
    have : cov ([] : List (V3 Rat)) y = M3.zero := by
      unfold cov; ext <;> simp [M3.zero, sumMap_nil]
    rw [this]; exact rankLt2_zero
  · obtain ⟨a, ha⟩ := allCoincident_spec h hne
    rw [cov_zero_of_fst (fun p hp => by rw [mean_of_const hne ha, ha p hp]; exact sub_self_zero a)]
    exact rankLt2_zero

theorem refuses_of_coincident_snd {x y : List (V3 Rat)} (h : allCoincident y = true) : rankLt2 (cov x y) = true := by
  by_cases hne : y = []
  · subst hne
    have : cov x ([] : List (V3 Rat)) = M3.zero := by
      unfold cov; ext <;> simp [M3.zero, sumMap_nil]
    rw [this]; exact rankLt2_zero
  · obtain ⟨a, ha⟩ := allCoincident_spec h hne
    rw [cov_zero_of_snd (fun p hp => by rw [mean_of_const hne ha, ha p hp]; exact sub_self_zero a)]
    exact rankLt2_zero


theorem cov_zero_fst_x {x y : List (V3 Rat)} (h : ∀ p ∈ x, p.y = 0 ∧ p.z = 0) :
    (cov x y).a01 = 0 ∧ (cov x y).a02 = 0 ∧ (cov x y).a11 = 0 ∧ (cov x y).a12 = 0 ∧ (cov x y).a21 = 0 ∧ (cov x y).a22 = 0 := by
  have m0 : (mean x).y = 0 := by
    show sumMap V3.y x / cnt x = 0
    rw [sumMap_zero_of_mem (fun p hp => (h p hp).1)]; simp
  have m1 : (mean x).z = 0 := by
    show sumMap V3.z x / cnt x = 0
    rw [sumMap_zero_of_mem (fun p hp => (h p hp).2)]; simp
  refine ⟨?_, ?_, ?_, ?_, ?_, ?_⟩ <;>
  · show 1 / cnt x * sumMap _ _ = 0
    apply cov_entry_zero
    intro p hp
    have := h p.1 (List.of_mem_zip hp).1
    simp [V3.sub, this.1, this.2, m0, m1]

theorem rank_fst_x {x y : List (V3 Rat)} (h : ∀ p ∈ x, p.y = 0 ∧ p.z = 0) :
    rankLt2 (cov x y) = true := by
  obtain ⟨h1, h2, h3, h4, h5, h6⟩ := cov_zero_fst_x (x := x) (y := y) h
  simp [rankLt2, minors2, h1, h2, h3, h4, h5, h6]

theorem cov_zero_fst_y {x y : List (V3 Rat)} (h : ∀ p ∈ x, p.x = 0 ∧ p.z = 0) :
    (cov x y).a00 = 0 ∧ (cov x y).a02 = 0 ∧ (cov x y).a10 = 0 ∧ (cov x y).a12 = 0 ∧ (cov x y).a20 = 0 ∧ (cov x y).a22 = 0 := by
  have m0 : (mean x).x = 0 := by
    show sumMap V3.x x / cnt x = 0
    rw [sumMap_zero_of_mem (fun p hp => (h p hp).1)]; simp
  have m1 : (mean x).z = 0 := by
    show sumMap V3.z x / cnt x = 0
    rw [sumMap_zero_of_mem (fun p hp => (h p hp).2)]; simp
  refine ⟨?_, ?_, ?_, ?_, ?_, ?_⟩ <;>
  · show 1 / cnt x * sumMap _ _ = 0
    apply cov_entry_zero
    intro p hp
    have := h p.1 (List.of_mem_zip hp).1
    simp [V3.sub, this.1, this.2, m0, m1]

theorem rank_fst_y {x y : List (V3 Rat)} (h : ∀ p ∈ x, p.x = 0 ∧ p.z = 0) :
    rankLt2 (cov x y) = true := by
  obtain ⟨h1, h2, h3, h4, h5, h6⟩ := cov_zero_fst_y (x := x) (y := y) h
  simp [rankLt2, minors2, h1, h2, h3, h4, h5, h6]

theorem cov_zero_fst_z {x y : List (V3 Rat)} (h : ∀ p ∈ x, p.x = 0 ∧ p.y = 0) :
    (cov x y).a00 = 0 ∧ (cov x y).a01 = 0 ∧ (cov x y).a10 = 0 ∧ (cov x y).a11 = 0 ∧ (cov x y).a20 = 0 ∧ (cov x y).a21 = 0 := by
  have m0 : (mean x).x = 0 := by
    show sumMap V3.x x / cnt x = 0
    rw [sumMap_zero_of_mem (fun p hp => (h p hp).1)]; simp
  have m1 : (mean x).y = 0 := by
    show sumMap V3.y x / cnt x = 0
    rw [sumMap_zero_of_mem (fun p hp => (h p hp).2)]; simp
  refine ⟨?_, ?_, ?_, ?_, ?_, ?_⟩ <;>
  · show 1 / cnt x * sumMap _ _ = 0
    apply cov_entry_zero
    intro p hp
    have := h p.1 (List.of_mem_zip hp).1
    simp [V3.sub, this.1, this.2, m0, m1]

theorem rank_fst_z {x y : List (V3 Rat)} (h : ∀ p ∈ x, p.x = 0 ∧ p.y = 0) :
    rankLt2 (cov x y) = true := by
  obtain ⟨h1, h2, h3, h4, h5, h6⟩ := cov_zero_fst_z (x := x) (y := y) h
  simp [rankLt2, minors2, h1, h2, h3, h4, h5, h6]

theorem cov_zero_snd_x {x y : List (V3 Rat)} (h : ∀ p ∈ y, p.y = 0 ∧ p.z = 0) :
    (cov x y).a10 = 0 ∧ (cov x y).a11 = 0 ∧ (cov x y).a12 = 0 ∧ (cov x y).a20 = 0 ∧ (cov x y).a21 = 0 ∧ (cov x y).a22 = 0 := by
  have m0 : (mean y).y = 0 := by
    show sumMap V3.y y / cnt y = 0
    rw [sumMap_zero_of_mem (fun p hp => (h p hp).1)]; simp
  have m1 : (mean y).z = 0 := by
    show sumMap V3.z y / cnt y = 0
    rw [sumMap_zero_of_mem (fun p hp => (h p hp).2)]; simp
  refine ⟨?_, ?_, ?_, ?_, ?_, ?_⟩ <;>
  · show 1 / cnt x * sumMap _ _ = 0
    apply cov_entry_zero
    intro p hp
    have := h p.2 (List.of_mem_zip hp).2
    simp [V3.sub, this.1, this.2, m0, m1]

theorem rank_snd_x {x y : List (V3 Rat)} (h : ∀ p ∈ y, p.y = 0 ∧ p.z = 0) :
    rankLt2 (cov x y) = true := by
  obtain ⟨h1, h2, h3, h4, h5, h6⟩ := cov_zero_snd_x (x := x) (y := y) h
  simp [rankLt2, minors2, h1, h2, h3, h4, h5, h6]

theorem cov_zero_snd_y {x y : List (V3 Rat)} (h : ∀ p ∈ y, p.x = 0 ∧ p.z = 0) :
    (cov x y).a00 = 0 ∧ (cov x y).a01 = 0 ∧ (cov x y).a02 = 0 ∧ (cov x y).a20 = 0 ∧ (cov x y).a21 = 0 ∧ (cov x y).a22 = 0 := by
  have m0 : (mean y).x = 0 := by
    show sumMap V3.x y / cnt y = 0
    rw [sumMap_zero_of_mem (fun p hp => (h p hp).1)]; simp
  have m1 : (mean y).z = 0 := by
    show sumMap V3.z y / cnt y = 0
    rw [sumMap_zero_of_mem (fun p hp => (h p hp).2)]; simp
  refine ⟨?_, ?_, ?_, ?_, ?_, ?_⟩ <;>
  · show 1 / cnt x * sumMap _ _ = 0
    apply cov_entry_zero
    intro p hp
    have := h p.2 (List.of_mem_zip hp).2
    simp [V3.sub, this.1, this.2, m0, m1]

theorem rank_snd_y {x y : List (V3 Rat)} (h : ∀ p ∈ y, p.x = 0 ∧ p.z = 0) :
    rankLt2 (cov x y) = true := by
  obtain ⟨h1, h2, h3, h4, h5, h6⟩ := cov_zero_snd_y (x := x) (y := y) h
  simp [rankLt2, minors2, h1, h2, h3, h4, h5, h6]

theorem cov_zero_snd_z {x y : List (V3 Rat)} (h : ∀ p ∈ y, p.x = 0 ∧ p.y = 0) :
    (cov x y).a00 = 0 ∧ (cov x y).a01 = 0 ∧ (cov x y).a02 = 0 ∧ (cov x y).a10 = 0 ∧ (cov x y).a11 = 0 ∧ (cov x y).a12 = 0 := by
  have m0 : (mean y).x = 0 := by
    show sumMap V3.x y / cnt y = 0
    rw [sumMap_zero_of_mem (fun p hp => (h p hp).1)]; simp
  have m1 : (mean y).y = 0 := by
    show sumMap V3.y y / cnt y = 0
    rw [sumMap_zero_of_mem (fun p hp => (h p hp).2)]; simp
  refine ⟨?_, ?_, ?_, ?_, ?_, ?_⟩ <;>
  · show 1 / cnt x * sumMap _ _ = 0
    apply cov_entry_zero
    intro p hp
    have := h p.2 (List.of_mem_zip hp).2
    simp [V3.sub, this.1, this.2, m0, m1]

theorem rank_snd_z {x y : List (V3 Rat)} (h : ∀ p ∈ y, p.x = 0 ∧ p.y = 0) :
    rankLt2 (cov x y) = true := by
  obtain ⟨h1, h2, h3, h4, h5, h6⟩ := cov_zero_snd_z (x := x) (y := y) h
  simp [rankLt2, minors2, h1, h2, h3, h4, h5, h6]

theorem onAxis_spec {x : List (V3 Rat)} (h : onOneCoordinateAxis x = true) :
    (∀ p ∈ x, p.y = 0 ∧ p.z = 0) ∨ (∀ p ∈ x, p.x = 0 ∧ p.z = 0) ∨ (∀ p ∈ x, p.x = 0 ∧ p.y = 0) := by
  simp only [onOneCoordinateAxis, Bool.or_eq_true, List.all_eq_true, Bool.and_eq_true, beq_iff_eq] at h
  rcases h with (h | h) | h
  · exact Or.inl h
  · exact Or.inr (Or.inl h)
  · exact Or.inr (Or.inr h)

theorem refuses_of_axis_fst {x y : List (V3 Rat)} (h : onOneCoordinateAxis x = true) : rankLt2 (cov x y) = true := by
  rcases onAxis_spec h with h | h | h
  · exact rank_fst_x h
  · exact rank_fst_y h
  · exact rank_fst_z h

theorem refuses_of_axis_snd {x y : List (V3 Rat)} (h : onOneCoordinateAxis y = true) : rankLt2 (cov x y) = true := by
  rcases onAxis_spec h with h | h | h
  · exact rank_snd_x h
  · exact rank_snd_y h
  · exact rank_snd_z h

end refuse
end Evo.Ume
