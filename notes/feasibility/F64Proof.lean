import Mathlib.Algebra.Order.Field.Rat
import Mathlib.Algebra.Order.Field.Power
import Mathlib.Tactic.Linarith
import Mathlib.Tactic.Positivity
import Mathlib.Tactic.Ring
import Mathlib.Tactic.NormNum

/-- binary64 values as rationals `m * 2^e` -/
def IsF64 (x : ℚ) : Prop :=
  ∃ m e : ℤ, |m| < 2 ^ 53 ∧ -1074 ≤ e ∧ e ≤ 971 ∧ x = m * (2 : ℚ) ^ e

theorem two_zpow_pos (e : ℤ) : (0 : ℚ) < (2 : ℚ) ^ e := by positivity

/-- a value `m * 2^e` rewritten with a smaller exponent `E` has an integer mantissa -/
theorem rescale (m e E : ℤ) (h : E ≤ e) :
    ∃ a : ℤ, (m : ℚ) * (2 : ℚ) ^ e = a * (2 : ℚ) ^ E := by
  obtain ⟨d, hd⟩ := Int.eq_ofNat_of_zero_le (sub_nonneg.mpr h)
  refine ⟨m * 2 ^ d, ?_⟩
  have he : e = E + d := by omega
  rw [he, zpow_add₀ (by norm_num : (2 : ℚ) ≠ 0)]
  push_cast
  rw [zpow_natCast]
  ring

theorem int_gap (a b E : ℤ) (h : (a : ℚ) * (2 : ℚ) ^ E ≠ b * (2 : ℚ) ^ E) :
    (2 : ℚ) ^ E ≤ |(a : ℚ) * (2 : ℚ) ^ E - b * (2 : ℚ) ^ E| := by
  have hab : a ≠ b := by rintro rfl; exact h rfl
  have h1 : (1 : ℚ) ≤ |((a - b : ℤ) : ℚ)| := by
    have : (1 : ℤ) ≤ |a - b| := Int.one_le_abs (sub_ne_zero.mpr hab)
    exact_mod_cast this
  have hp := two_zpow_pos E
  have : (a : ℚ) * (2 : ℚ) ^ E - b * (2 : ℚ) ^ E = ((a - b : ℤ) : ℚ) * (2 : ℚ) ^ E := by
    push_cast; ring
  rw [this, abs_mul, abs_of_pos hp]
  nlinarith

/-- The only binary64 value at least as near to `y` as `x` is `x` itself, whenever
`y` is within relative distance `2^-55` of the binary64 value `x`. -/
theorem f64_unique_near (x x' y : ℚ) (hx : IsF64 x) (hx' : IsF64 x')
    (hclose : |y - x| ≤ |x| / 2 ^ 55) (hnear : |y - x'| ≤ |y - x|) : x' = x := by
  by_contra hne
  obtain ⟨m, e, hm, -, -, rfl⟩ := hx
  obtain ⟨m', e', hm', -, -, rfl⟩ := hx'
  set x := (m : ℚ) * (2 : ℚ) ^ e with hxdef
  set x' := (m' : ℚ) * (2 : ℚ) ^ e' with hx'def
  -- distance between x and x' is small
  have hd : |x - x'| ≤ |x| / 2 ^ 54 := by
    have h1 : |x - x'| ≤ |y - x| + |y - x'| := by
      have : x - x' = -(y - x) + (y - x') := by ring
      rw [this]
      calc |-(y - x) + (y - x')| ≤ |-(y - x)| + |y - x'| := abs_add_le _ _
        _ = |y - x| + |y - x'| := by rw [abs_neg]
    have h2 : |y - x| + |y - x'| ≤ 2 * (|x| / 2 ^ 55) := by linarith
    have h3 : 2 * (|x| / 2 ^ 55) = |x| / 2 ^ 54 := by ring
    linarith
  have hmq : |(m : ℚ)| < 2 ^ 53 := by exact_mod_cast hm
  have hmq' : |(m' : ℚ)| < 2 ^ 53 := by exact_mod_cast hm'
  have hxabs : |x| = |(m : ℚ)| * (2 : ℚ) ^ e := by
    rw [hxdef, abs_mul, abs_of_pos (two_zpow_pos e)]
  have hx'abs : |x'| = |(m' : ℚ)| * (2 : ℚ) ^ e' := by
    rw [hx'def, abs_mul, abs_of_pos (two_zpow_pos e')]
  rcases le_total e e' with hle | hle
  · -- common exponent e
    obtain ⟨a', ha'⟩ := rescale m' e' e hle
    have hgap : (2 : ℚ) ^ e ≤ |x - x'| := by
      rw [hxdef, hx'def, ha']
      apply int_gap
      intro h; apply hne; rw [hx'def, hxdef, ha']; exact h.symm
    have hp := two_zpow_pos e
    -- |x|/2^54 < 2^e
    have : |x| / 2 ^ 54 < (2 : ℚ) ^ e := by
      rw [hxabs, div_lt_iff₀ (by positivity)]
      nlinarith
    linarith
  · -- common exponent e'
    obtain ⟨a, ha⟩ := rescale m e e' hle
    have hgap : (2 : ℚ) ^ e' ≤ |x - x'| := by
      rw [hxdef, hx'def, ha]
      apply int_gap
      intro h; apply hne; rw [hx'def, hxdef, ha]; exact h.symm
    have hp := two_zpow_pos e'
    -- |x| ≤ |x'| + |x - x'|
    have htri : |x| ≤ |x'| + |x - x'| := by
      have : x = x' + (x - x') := by ring
      calc |x| = |x' + (x - x')| := by rw [← this]
        _ ≤ |x'| + |x - x'| := abs_add_le _ _
    have hx'lt : |x'| < 2 ^ 53 * (2 : ℚ) ^ e' := by
      rw [hx'abs]; exact mul_lt_mul_of_pos_right hmq' hp
    have hxnn : 0 ≤ |x| := abs_nonneg x
    -- from hd: |x - x'| ≤ |x|/2^54, so |x| (1 - 2^-54) < 2^53 2^e'
    have h54 : (0 : ℚ) < 2 ^ 54 := by positivity
    have hd' : |x - x'| * 2 ^ 54 ≤ |x| := by
      rwa [le_div_iff₀ h54] at hd
    nlinarith

#print axioms f64_unique_near
