import Mathlib.LinearAlgebra.Matrix.NonsingularInverse
import Mathlib.LinearAlgebra.UnitaryGroup
import Mathlib.Tactic

open Matrix

variable {R : Type*} [CommRing R]

/-- rigid pose as (rotation, translation) -/
@[ext] structure Pose (R : Type*) where
  rot : Matrix (Fin 3) (Fin 3) R
  t : Fin 3 → R

namespace Pose
variable {R : Type*} [CommRing R]
def mul (a b : Pose R) : Pose R := ⟨a.rot * b.rot, a.rot *ᵥ b.t + a.t⟩
def inv (a : Pose R) : Pose R := ⟨a.rotᵀ, - (a.rotᵀ *ᵥ a.t)⟩
def one : Pose R := ⟨1, 0⟩
def rel (a b : Pose R) : Pose R := mul (inv a) b
def IsRigid (a : Pose R) : Prop := a.rotᵀ * a.rot = 1

theorem inv_mul (a : Pose R) (h : a.IsRigid) : mul (inv a) a = one := by
  unfold mul inv one IsRigid at *
  simp [h, Matrix.neg_mulVec]

theorem rel_left_invariant (T a b : Pose R) (hT : T.IsRigid) :
    rel (mul T a) (mul T b) = rel a b := by
  unfold rel mul inv IsRigid at *
  ext i j
  · show ((T.rot * a.rot)ᵀ * (T.rot * b.rot)) i j = (a.rotᵀ * b.rot) i j
    simp only [Matrix.transpose_mul]
    rw [Matrix.mul_assoc, ← Matrix.mul_assoc T.rotᵀ, hT, Matrix.one_mul]
  · simp only [Matrix.transpose_mul, Matrix.mulVec_add, Matrix.mulVec_mulVec, Matrix.neg_mulVec]
    have : a.rotᵀ * T.rotᵀ * T.rot = a.rotᵀ := by rw [Matrix.mul_assoc, hT, Matrix.mul_one]
    rw [this]
    simp [add_comm, add_left_comm, add_assoc]
    abel
end Pose
