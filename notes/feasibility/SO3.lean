import Mathlib.LinearAlgebra.Matrix.NonsingularInverse
import Mathlib.LinearAlgebra.Matrix.Determinant.Basic
import Mathlib.Tactic.LinearCombination
import Mathlib.Tactic.Positivity
import Mathlib.Tactic.FinCases
import Mathlib.Data.Real.Basic

open Matrix

/-- entries of a 3x3 real matrix satisfying RᵀR = 1 and det R = 1: cofactor identities. -/
theorem cof_eq_self {R : Matrix (Fin 3) (Fin 3) ℝ} (hO : Rᵀ * R = 1) (hD : R.det = 1) :
    R.adjugate = Rᵀ := by
  have h1 : R * R.adjugate = 1 := by rw [Matrix.mul_adjugate, hD, one_smul]
  calc R.adjugate = (Rᵀ * R) * R.adjugate := by rw [hO, Matrix.one_mul]
    _ = Rᵀ * (R * R.adjugate) := by rw [Matrix.mul_assoc]
    _ = Rᵀ := by rw [h1, Matrix.mul_one]

theorem so3_t3_nonneg {R : Matrix (Fin 3) (Fin 3) ℝ} (hO : Rᵀ * R = 1) (hD : R.det = 1) :
    0 ≤ 1 - R 0 0 - R 1 1 + R 2 2 := by
  have hA := cof_eq_self hO hD
  -- column-norm equations
  have hc00 : R 0 0 ^ 2 + R 1 0 ^ 2 + R 2 0 ^ 2 = 1 := by
    have := congrFun (congrFun hO 0) 0
    simp [Matrix.mul_apply, Fin.sum_univ_three] at this; nlinarith [this]
  have hc11 : R 0 1 ^ 2 + R 1 1 ^ 2 + R 2 1 ^ 2 = 1 := by
    have := congrFun (congrFun hO 1) 1
    simp [Matrix.mul_apply, Fin.sum_univ_three] at this; nlinarith [this]
  have hc22 : R 0 2 ^ 2 + R 1 2 ^ 2 + R 2 2 ^ 2 = 1 := by
    have := congrFun (congrFun hO 2) 2
    simp [Matrix.mul_apply, Fin.sum_univ_three] at this; nlinarith [this]
  -- cofactor equations (adjugate = transpose): adj i j = R j i
  have hk00 : R 1 1 * R 2 2 - R 1 2 * R 2 1 = R 0 0 := by
    have := congrFun (congrFun hA 0) 0
    rw [Matrix.adjugate_fin_three] at this
    simpa using this
  have hk11 : R 0 0 * R 2 2 - R 0 2 * R 2 0 = R 1 1 := by
    have := congrFun (congrFun hA 1) 1
    rw [Matrix.adjugate_fin_three] at this
    simpa using this
  have hk22 : R 0 0 * R 1 1 - R 0 1 * R 1 0 = R 2 2 := by
    have := congrFun (congrFun hA 2) 2
    rw [Matrix.adjugate_fin_three] at this
    simpa using this
  have key : (1 - R 0 0 - R 1 1 + R 2 2) ^ 2 + (R 0 2 + R 2 0) ^ 2 + (R 1 2 + R 2 1) ^ 2
      + (R 1 0 - R 0 1) ^ 2 = 4 * (1 - R 0 0 - R 1 1 + R 2 2) := by
    linear_combination hc00 + hc11 + hc22 - 2 * hk00 - 2 * hk11 + 2 * hk22
  nlinarith [sq_nonneg (1 - R 0 0 - R 1 1 + R 2 2), sq_nonneg (R 0 2 + R 2 0),
    sq_nonneg (R 1 2 + R 2 1), sq_nonneg (R 1 0 - R 0 1)]

#print axioms so3_t3_nonneg
