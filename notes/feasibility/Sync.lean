namespace P.Sync

def absR (x : Rat) : Rat := if x < 0 then -x else x

/-- first index minimising `f` over `l` (indices offset by `i`); `best`/`bv` current candidate -/
def argminGo (f : Rat → Rat) : List Rat → Nat → Nat → Rat → Nat
  | [], _, best, _ => best
  | x :: r, i, best, bv => if f x < bv then argminGo f r (i+1) i (f x) else argminGo f r (i+1) best bv

def argminFirst (f : Rat → Rat) : List Rat → Nat
  | [] => 0
  | x :: r => argminGo f r 1 0 (f x)

/-- model of `matching_time_indices` -/
def matchIdx (s1 s2 : List Rat) (maxDiff off : Rat) : List (Nat × Nat) :=
  let rec go : List Rat → Nat → List (Nat × Nat)
    | [], _ => []
    | t :: r, i =>
        let f := fun u => absR (u + off - t)
        let j := argminFirst f s2
        match s2[j]? with
        | some u => if f u ≤ maxDiff then (i, j) :: go r (i+1) else go r (i+1)
        | none => go r (i+1)
  go s1 0

end P.Sync
