import Mathlib.Tactic.LinearCombination
import Mathlib.Tactic.Positivity
import Mathlib.Tactic.Linarith
import Mathlib.Data.Real.Basic

/-- quadratic form of `B = tr(A)·I − A` for symmetric `A` given by its 6 entries -/
def QB (A11 A12 A13 A22 A23 A33 x y z : ℝ) : ℝ :=
  (A11 + A22 + A33) * (x^2 + y^2 + z^2)
    - (A11*x^2 + A22*y^2 + A33*z^2 + 2*A12*x*y + 2*A13*x*z + 2*A23*y*z)

/-- Trace maximality: if `R = [[a,b,c],[d,e,f],[g,h,i]]` is a proper rotation and
`tr(A)·I − A` is positive semidefinite for the symmetric `A`, then `tr(R·A) ≤ tr A`. -/
theorem traceMax_scalar (a b c d e f g h i A11 A12 A13 A22 A23 A33 : ℝ)
    (hc00 : a^2 + d^2 + g^2 - 1 = 0) (hc01 : a*b + d*e + g*h = 0) (hc02 : a*c + d*f + g*i = 0)
    (hc11 : b^2 + e^2 + h^2 - 1 = 0) (hc12 : b*c + e*f + h*i = 0) (hc22 : c^2 + f^2 + i^2 - 1 = 0)
    (hr00 : a^2 + b^2 + c^2 - 1 = 0) (hr01 : a*d + b*e + c*f = 0) (hr02 : a*g + b*h + c*i = 0)
    (hr11 : d^2 + e^2 + f^2 - 1 = 0) (hr12 : d*g + e*h + f*i = 0)
    (hk00 : -a + e*i - f*h = 0) (hk01 : -b - d*i + f*g = 0) (hk02 : -c + d*h - e*g = 0)
    (hk10 : -b*i + c*h - d = 0) (hk11 : a*i - c*g - e = 0) (hk12 : -a*h + b*g - f = 0)
    (hk20 : b*f - c*e - g = 0) (hk21 : -a*f + c*d - h = 0) (hk22 : a*e - b*d - i = 0)
    (hB : ∀ x y z : ℝ, 0 ≤ QB A11 A12 A13 A22 A23 A33 x y z) :
    a*A11 + b*A12 + c*A13 + d*A12 + e*A22 + f*A23 + g*A13 + h*A23 + i*A33
      ≤ A11 + A22 + A33 := by
  set Δ := (A11 + A22 + A33)
      - (a*A11 + b*A12 + c*A13 + d*A12 + e*A22 + f*A23 + g*A13 + h*A23 + i*A33) with hΔ
  suffices h0 : 0 ≤ Δ by linarith
  -- 1 + tr R ≥ 0
  have hI2 : (1 + (a+e+i))^2 + (h-f)^2 + (c-g)^2 + (d-b)^2 = 4 * (1 + (a+e+i)) := by
    linear_combination hc00 + hc11 + hc22 + 2*hk00 + 2*hk11 + 2*hk22
  have htr : 0 ≤ 1 + (a+e+i) := by
    nlinarith [sq_nonneg (1 + (a+e+i)), sq_nonneg (h-f), sq_nonneg (c-g), sq_nonneg (d-b)]
  -- main identity: (1+c)·Δ = QB(w)
  have hI1 : (1 + (a+e+i-1)/2) * Δ
      = QB A11 A12 A13 A22 A23 A33 ((h-f)/2) ((c-g)/2) ((d-b)/2) := by
    simp only [hΔ, QB]
    linear_combination (-A11/4 - A33/4)*hc00 + (-A12/2)*hc01 + (-A13/2)*hc02
      + (-A22/4 - A33/4)*hc11 + (-A23/2)*hc12 + (-A33/2)*hc22
      + (-A11/4 + A33/4)*hr00 + (-A12/2)*hr01 + (-A13/2)*hr02 + (-A22/4 + A33/4)*hr11
      + (-A23/2)*hr12 + (-A22/2 - A33/2)*hk00 + (A12/2)*hk01 + (A13/2)*hk02 + (A12/2)*hk10
      + (-A11/2 - A33/2)*hk11 + (A23/2)*hk12 + (A13/2)*hk20 + (A23/2)*hk21
      + (-A11/2 - A22/2)*hk22
  rcases htr.lt_or_eq with hpos | hzero
  · -- 1 + c > 0
    have hq := hB ((h-f)/2) ((c-g)/2) ((d-b)/2)
    have hcpos : 0 < 1 + (a+e+i-1)/2 := by linarith
    by_contra hneg
    push_neg at hneg
    have : (1 + (a+e+i-1)/2) * Δ < 0 := mul_neg_of_pos_of_neg hcpos hneg
    linarith
  · -- tr R = -1
    have htr1 : a + e + i + 1 = 0 := by linarith
    have hsum : Δ = 2 * (QB A11 A12 A13 A22 A23 A33 ((a+1)/2) (d/2) (g/2)
        + QB A11 A12 A13 A22 A23 A33 (b/2) ((e+1)/2) (h/2)
        + QB A11 A12 A13 A22 A23 A33 (c/2) (f/2) ((i+1)/2)) := by
      simp only [hΔ, QB]
      linear_combination (-A11/2 - A22/2)*hc00 + (-A11/2 - A22/2)*hc11 + (-A11/2 - A22/2)*hc22
        + (A11/2 - A33/2)*hr00 + A12*hr01 + A13*hr02 + (A22/2 - A33/2)*hr11 + A23*hr12
        + (-A11 - A22 - A33)*htr1
    rw [hsum]
    have h1 := hB ((a+1)/2) (d/2) (g/2)
    have h2 := hB (b/2) ((e+1)/2) (h/2)
    have h3 := hB (c/2) (f/2) ((i+1)/2)
    linarith

#print axioms traceMax_scalar
