import sympy as sp
names='a b c d e f g h i'.split()
a,b,c,d,e,f,g,h,i=sp.symbols(names)
q=sp.Matrix([[a,b,c],[d,e,f],[g,h,i]])
vars_=list(q)
gens=[];gn=[]
M=q.T*q-sp.eye(3)
for r in range(3):
    for s in range(r,3):
        gens.append(sp.expand(M[r,s])); gn.append(f"hc{r}{s}")
M2=q*q.T-sp.eye(3)
for r in range(3):
    for s in range(r,3):
        gens.append(sp.expand(M2[r,s])); gn.append(f"hr{r}{s}")
cof=q.cofactor_matrix()
for r in range(3):
    for s in range(3):
        gens.append(sp.expand(cof[r,s]-q[r,s])); gn.append(f"hk{r}{s}")
def certify(target):
    target=sp.expand(target)
    cs=sp.symbols(f'c0:{len(gens)}')
    expr=sp.expand(target-sum(cc*gg for cc,gg in zip(cs,gens)))
    poly=sp.Poly(expr,*vars_)
    sol=sp.solve(poly.coeffs(),cs,dict=True)
    if not sol: return None
    sol=sol[0]
    # set free params to 0
    res={}
    for k,cc in enumerate(cs):
        v=sol.get(cc,0)
        v=v.subs({x:0 for x in cs}) if hasattr(v,'subs') else v
        if v!=0: res[gn[k]]=v
    return res
t3=1-a-e+i
target=t3**2+(c+g)**2+(f+h)**2+(d-b)**2-4*t3
print(certify(target))
for k,(n,gg) in enumerate(zip(gn,gens)): print(n, gg)
