import sympy as sp
a,b,c,d,e,f,g,h,i=sp.symbols('a b c d e f g h i')
q=sp.Matrix([[a,b,c],[d,e,f],[g,h,i]])
A11,A12,A13,A22,A23,A33=sp.symbols('A11 A12 A13 A22 A23 A33')
A=sp.Matrix([[A11,A12,A13],[A12,A22,A23],[A13,A23,A33]])
Avars=[A11,A12,A13,A22,A23,A33]
vars_=list(q)
gens=[];gn=[]
M=q.T*q-sp.eye(3)
for r in range(3):
    for s in range(r,3):
        gens.append(sp.expand(M[r,s])); gn.append(f"hc{r}{s}")
M2=q*q.T-sp.eye(3)
for r in range(3):
    for s in range(r,3):
        gens.append(sp.expand(M2[r,s])); gn.append(f"hr{r}{s}")
cof=q.cofactor_matrix()
for r in range(3):
    for s in range(3):
        gens.append(sp.expand(cof[r,s]-q[r,s])); gn.append(f"hk{r}{s}")
def certify_lin(target):
    # coefficients linear in Avars (plus constant)
    basis=[1]+Avars
    cs={}
    allc=[]
    expr=sp.expand(target)
    for k in range(len(gens)):
        for m,bm in enumerate(basis):
            s_=sp.Symbol(f"x_{k}_{m}"); cs[(k,m)]=s_; allc.append(s_)
    comb=sum(sum(cs[(k,m)]*bm for m,bm in enumerate(basis))*gens[k] for k in range(len(gens)))
    poly=sp.Poly(sp.expand(expr-comb),*(vars_+Avars))
    sol=sp.solve(poly.coeffs(),allc,dict=True)
    if not sol: return None
    sol=sol[0]
    out={}
    for k in range(len(gens)):
        co=0
        for m,bm in enumerate(basis):
            v=sol.get(cs[(k,m)],cs[(k,m)])
            v=v.subs({x:0 for x in allc})
            co+=v*bm
        co=sp.simplify(co)
        if co!=0: out[gn[k]]=co
    return out
cc=(q.trace()-1)/2
S=(q-q.T)/2
w=sp.Matrix([S[2,1],S[0,2],S[1,0]])
B=A.trace()*sp.eye(3)-A
I1=(1+cc)*(A.trace()-(q*A).trace()) - (w.T*B*w)[0]
res=certify_lin(I1)
print("I1:",res)
# verify
chk=sp.expand(I1-sum(co*gens[gn.index(n)] for n,co in res.items())); print("check",chk)
tw=1+q.trace()
I2=tw**2+(h-f)**2+(c-g)**2+(d-b)**2-4*tw
def certify(target):
    cs=sp.symbols(f'c0:{len(gens)}')
    poly=sp.Poly(sp.expand(target-sum(x*g_ for x,g_ in zip(cs,gens))),*vars_)
    sol=sp.solve(poly.coeffs(),cs,dict=True)[0]
    return {gn[k]:sol.get(x,0).subs({y:0 for y in cs}) if hasattr(sol.get(x,0),'subs') else sol.get(x,0) for k,x in enumerate(cs) if sol.get(x,0)!=0}
print("I2:",certify(I2))
# case c=-1: add symmetry + trace gens
gens2=gens+[b-d, c-g, f-h, a+e+i+1]; gn2=gn+["sbd","scg","sfh","htr"]
P=(q+sp.eye(3))/2
def QB(v): return (A.trace()*(v.T*v)[0]-(v.T*A*v)[0])
Delta=A.trace()-(q*A).trace()
target=sp.expand(Delta-2*sum(QB(P[:,k]) for k in range(3)))
basis=[1]+Avars
allc=[];cs={}
for k in range(len(gens2)):
    for m in range(len(basis)):
        s_=sp.Symbol(f"y_{k}_{m}"); cs[(k,m)]=s_; allc.append(s_)
# allow coefficient also linear in R entries for the linear gens (degree matching): multiply symmetric gens by (1 + R entries)
ext=[]
extn=[]
for k,gk in enumerate(gens2):
    if k<len(gens): ext.append(gk); extn.append(gn2[k])
    else:
        ext.append(gk); extn.append(gn2[k])
        for v in vars_: ext.append(sp.expand(gk*v)); extn.append(f"{gn2[k]}*{v}")
allc=[];cs={}
for k in range(len(ext)):
    for m in range(len(basis)):
        s_=sp.Symbol(f"y_{k}_{m}"); cs[(k,m)]=s_; allc.append(s_)
comb=sum(sum(cs[(k,m)]*basis[m] for m in range(len(basis)))*ext[k] for k in range(len(ext)))
poly=sp.Poly(sp.expand(target-comb),*(vars_+Avars))
sol=sp.solve(poly.coeffs(),allc,dict=True)
print("case c=-1 certificate exists:", bool(sol))
if sol:
    sol=sol[0]; out={}
    for k in range(len(ext)):
        co=0
        for m in range(len(basis)):
            v=sol.get(cs[(k,m)],cs[(k,m)]); v=v.subs({x:0 for x in allc}); co+=v*basis[m]
        co=sp.simplify(co)
        if co!=0: out[extn[k]]=co
    print(out)
    chk=sp.expand(target-sum(co*ext[extn.index(n)] for n,co in out.items())); print("check",chk)
