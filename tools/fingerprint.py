#!/venv/bin/python
"""(run with /venv/bin/python: ast.dump differs between Python versions) Rewrites harness/fingerprints.json from the MODELLED lists of all harness/props/Cnn.py (run when a model has been
brought in line with a deliberate source change; never run by a check)."""
import importlib
import json
import sys
from pathlib import Path
V = Path(__file__).resolve().parent.parent
sys.path.insert(0, str(V / "harness"))
import core  # noqa
specs = set()
import importlib.util
sys.path.insert(0, str(V / "harness" / "props"))
for f in sorted((V / "harness" / "props").glob("C*.py")):
    if "MODELLED" not in f.read_text():
        continue
    spec = importlib.util.spec_from_file_location(f"props_{f.stem}", f)
    mod = importlib.util.module_from_spec(spec)
    spec.loader.exec_module(mod)          # our own modules; they import evo lazily inside functions
    specs |= set(mod.MODELLED)
fp = core.fingerprints(sorted(specs))
bad = {k: v for k, v in fp.items() if v in ("missing",) or v.startswith("unreadable")}
if bad:
    print("unresolved:", bad)
fp["__tree__"] = core.tree_hash()
(V / "harness" / "fingerprints.json").write_text(json.dumps(fp, indent=1, sort_keys=True) + "\n")
print(len(fp), "functions fingerprinted")
