#!/venv/bin/python
"""(run with /venv/bin/python: ast.dump differs between Python versions) Rewrites harness/fingerprints.json from the MODELLED lists of all harness/props/Cnn.py (run when a model has been
brought in line with a deliberate source change; never run by a check)."""
import importlib
import json
import sys
from pathlib import Path
V = Path(__file__).resolve().parent.parent
sys.path.insert(0, str(V / "harness"))
import core  # noqa
specs = set()
for f in sorted((V / "harness" / "props").glob("C*.py")):
    src = f.read_text()
    if "MODELLED" not in src:
        continue
    ns = {}
    import ast
    for node in ast.parse(src).body:
        if isinstance(node, ast.Assign) and any(getattr(t, "id", None) == "MODELLED" for t in node.targets):
            specs |= set(eval(compile(ast.Expression(node.value), str(f), 'eval'), {}))  # our own files: lists, + and comprehensions
fp = core.fingerprints(sorted(specs))
bad = {k: v for k, v in fp.items() if v in ("missing",) or v.startswith("unreadable")}
if bad:
    print("unresolved:", bad)
(V / "harness" / "fingerprints.json").write_text(json.dumps(fp, indent=1, sort_keys=True) + "\n")
print(len(fp), "functions fingerprinted")
