#!/usr/bin/env python3
"""Regenerates MANIFEST.json from the per-property table below (kept next to the code so that
the manifest never drifts from what is built)."""
import json
from pathlib import Path

V = Path(__file__).resolve().parent.parent
# one JSON file per claimed property: harness/props/Cnn.json with keys text, design, note, technique
CLAIMED = {f.stem: json.loads(f.read_text()) for f in sorted((V / "harness" / "props").glob("C*.json"))}
PENDING_REASON = "check not built yet (work in progress in this session; see DESIGN.md section 4 for the planned Lean model and theorems)"

props = [json.loads(l) for l in (V / "properties.jsonl").read_text().splitlines() if l.strip()]
checks, na = [], []
for p in props:
    pid = p["id"]
    if pid in CLAIMED:
        c = CLAIMED[pid]
        checks.append({
            "property_id": pid,
            "quick_cmd": f"./check {pid} quick",
            "thorough_cmd": f"./check {pid} thorough",
            "evidence_file": f"/verif/evidence/{pid}.json",
            "replay_cmd_template": f"./check {pid} --replay {{path}}",
            "engine": "lean4-model+correspondence",
            "level_claimed": {"category": "proof", "text": c["text"], "design_ref": "DESIGN.md " + c["design"]},
            "level_note": c["note"],
            "technique": c["technique"],
        })
    else:
        na.append({"property_id": pid, "reason": PENDING_REASON})
man = {
    "version": 1,
    "setup_cmd": "cd lean && lake build",
    "hooks": {"guard": "EVO_VERIF", "enable": "no hooks in /repo: instrumentation is injected by the harness (monkey-patching in a child "
              "process with an isolated HOME)", "baseline_off_cmd": "cd /repo && /venv/bin/python -m pytest -ra -q -p no:cacheprovider --timeout=900 --continue-on-collection-errors",
              "source_commits": [], "add_only": True},
    "engines": [{"name": "lean4-model+correspondence", "path": "/verif/lean + /verif/harness",
                 "serves_properties": sorted(CLAIMED),
                 "kind_free_text": "Lean 4 theorems about executable models (Mathlib-free models compiled into the driver evodrv; proofs import "
                                   "single Mathlib modules) tied to /repo by a translator for tables/call sites and a differential correspondence harness"}],
    "checks": checks,
    "not_applicable": na,
    "notes": "Every check: regenerate tables from /repo, lake build theorems + driver, axiom audit, correspondence + property oracle on the "
             "real code, verdict per DESIGN.md section 1. Known findings: /verif/known_findings.json.",
}
(V / "MANIFEST.json").write_text(json.dumps(man, indent=1) + "\n")
print(f"claimed {len(checks)}, not_applicable {len(na)}")
