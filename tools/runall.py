#!/usr/bin/env python3
"""tools/runall.py [quick|thorough] [--seeds 0,1,2] [--jobs 4] [Cnn …] — run the registered checks on the clean tree and
summarise (exit code, VIOLATION / KNOWN-FINDING lines, wall time). Validation aid; not used by any check."""
import json, os, subprocess, sys, time
from concurrent.futures import ThreadPoolExecutor
from pathlib import Path
V = Path(__file__).resolve().parent.parent
a = sys.argv[1:]
tier = a[0] if a and a[0] in ("quick", "thorough") else "quick"
seeds = [0]
jobs = 4
props = []
i = 1 if a and a[0] in ("quick", "thorough") else 0
while i < len(a):
    if a[i] == "--seeds":
        seeds = [int(x) for x in a[i + 1].split(",")]; i += 2
    elif a[i] == "--jobs":
        jobs = int(a[i + 1]); i += 2
    else:
        props.append(a[i]); i += 1
if not props:
    props = [c["property_id"] for c in json.loads((V / "MANIFEST.json").read_text())["checks"]]

def run(ps):
    p, s = ps
    t0 = time.time()
    try:
        r = subprocess.run(["./check", p, tier], cwd=V, env={**os.environ, "VERIF_SEED": str(s)}, capture_output=True, text=True, timeout=7200)
        rc, out = r.returncode, r.stdout + r.stderr
    except subprocess.TimeoutExpired:
        rc, out = 124, "timeout"
    lines = [l for l in out.split("\n") if l.startswith(("VIOLATION", "KNOWN-FINDING", "TOOL-ERROR", "["))]
    return p, s, rc, round(time.time() - t0, 1), lines, out

bad = 0
with ThreadPoolExecutor(jobs) as ex:
    for p, s, rc, w, lines, out in ex.map(run, [(p, s) for s in seeds for p in props]):
        print(f"{p} seed={s} rc={rc} {w}s " + (" | ".join(l[:160] for l in lines[-3:]) if lines else out[-300:].replace("\n", " ")))
        bad += rc != 0
print("non-zero exits:", bad)
sys.exit(1 if bad else 0)
