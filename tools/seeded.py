#!/usr/bin/env python3
"""
Seeded-change bookkeeping.

  tools/seeded.py verify <Cnn> <k> [--src DIR] [--as K2]  confirm a sub-agent's change (DIR/patch<k>.diff, demo<k>.py,
                                                 notes<k>.md; default DIR=/tmp/mut_<Cnn>_out) in a scratch worktree:
                                                 demo passes without / fails with the change, the 82 pinned tests still
                                                 pass; then run the check against it and store everything under
                                                 /verif/seeded/<Cnn>-<k>/ (patch.diff, demo.py, notes.md, meta.json)
  tools/seeded.py run [<id> …]                   run the registered check of each kept change again (all by default)
                                                 against a scratch worktree with the change applied; update meta.json
  tools/seeded.py neutral <Cnn> <k> [--src DIR]  a property-PRESERVING change (DIR/patch<k>.diff, probe<k>.py, notes<k>.md; default
                                                 DIR=/tmp/neu_<Cnn>_out): tests pass, probe output unchanged, and the check must stay
                                                 silent (exit 0, no VIOLATION line); stored under /verif/neutral/<Cnn>-<k>/
  tools/seeded.py neutral-run [<id> …]           re-run the checks against the kept neutral changes
  tools/seeded.py table                          markdown table of which check catches which change

Scratch worktrees live under /tmp and are removed as soon as each step is done; /repo itself is never modified.
"""
import json
import os
import re
import shutil
import subprocess
import sys
import tempfile
import time
from pathlib import Path

V = Path(__file__).resolve().parent.parent
REPO = "/repo"
PY = "/venv/bin/python"
BASE = json.loads(Path("/root/.vp/BASELINE.json").read_text())


def sh(cmd, cwd=None, env=None, timeout=1800):
    e = dict(os.environ)
    e.update(env or {})
    p = subprocess.run(cmd, cwd=cwd, env=e, shell=True, capture_output=True, text=True, timeout=timeout)
    return p.returncode, p.stdout + p.stderr


class Worktree:
    def __init__(self, tag):
        self.path = f"/tmp/seedchk_{tag}_{os.getpid()}"

    def __enter__(self):
        sh(f"git -C {REPO} worktree remove --force {self.path}")
        rc, out = sh(f"git -C {REPO} worktree add -q --detach {self.path} HEAD")
        if rc:
            raise SystemExit(out)
        return self.path

    def __exit__(self, *a):
        sh(f"git -C {REPO} worktree remove --force {self.path}")
        shutil.rmtree(self.path, ignore_errors=True)


def run_demo(wt, demo):
    home = tempfile.mkdtemp(prefix="seed_home_")
    try:
        rc, out = sh(f"{PY} -W ignore {demo}", cwd=wt, env={"PYTHONPATH": wt, "HOME": home, "MPLBACKEND": "Agg"}, timeout=600)
    finally:
        shutil.rmtree(home, ignore_errors=True)
    return rc, out[-1500:]


def run_tests(wt):
    junit = f"{wt}/.junit.xml"
    rc, out = sh(f"{PY} -m pytest -q -p no:cacheprovider --timeout=900 --continue-on-collection-errors --junitxml={junit} test",
                 cwd=wt, env={"PYTHONPATH": wt}, timeout=1200)
    import xml.etree.ElementTree as ET
    passed = set()
    try:
        for tc in ET.parse(junit).getroot().iter("testcase"):
            if not any(ch.tag in ("failure", "error", "skipped") for ch in tc):
                passed.add(f"{tc.get('classname')}::{tc.get('name')}")
    except Exception as e:  # noqa
        return False, f"no junit: {e}\n{out[-500:]}"
    missing = sorted(set(BASE["stable_pass"]) - passed)
    return not missing, (f"{len(passed)} passed; missing from baseline: {missing}" if missing else f"{len(passed)} passed, all 82 baseline tests pass")


def run_check(prop, wt, tier="quick", seed=0):
    t0 = time.time()
    rc, out = sh(f"./check {prop} {tier}", cwd=V, env={"EVO_REPO": wt, "VERIF_SEED": str(seed)}, timeout=3600)
    viol = [l for l in out.split("\n") if l.startswith("VIOLATION")]
    replay = None
    m = re.search(r"replay=(\S+)", viol[0]) if viol else None
    if m and Path(m.group(1)).exists():
        replay = json.loads(Path(m.group(1)).read_text())
    return {"exit": rc, "violation_lines": viol[:5], "wall_s": round(time.time() - t0, 1), "tier": tier, "seed": seed,
            "tail": out[-600:], "replay_excerpt": json.dumps(replay, default=str)[:1200] if replay else None}


def verify(prop, k, src=None, store_as=None):
    src = Path(src or f"/tmp/mut_{prop}_out")
    patch, demo, notes = src / f"patch{k}.diff", src / f"demo{k}.py", src / f"notes{k}.md"
    if not patch.exists() or not demo.exists():
        raise SystemExit(f"missing {patch} or {demo}")
    meta = {"property": prop, "source": "independent sub-agent given only the property text and a scratch worktree",
            "verified_at": time.strftime("%Y-%m-%dT%H:%M:%SZ", time.gmtime())}
    with Worktree(f"{prop}_{k}") as wt:
        rc0, out0 = run_demo(wt, demo)
        meta["demo_without_change"] = {"exit": rc0, "tail": out0[-300:]}
        rc, out = sh(f"git -C {wt} apply {patch}")
        if rc:
            meta["apply_error"] = out
            print(json.dumps(meta, indent=1))
            return False
        ok, msg = run_tests(wt)
        meta["pinned_tests_with_change"] = msg
        rc1, out1 = run_demo(wt, demo)
        meta["demo_with_change"] = {"exit": rc1, "tail": out1[-300:]}
        meta["confirmed"] = bool(rc0 == 0 and rc1 != 0 and ok)
        if meta["confirmed"] and (V / "harness" / "props" / f"{prop}.py").exists():
            meta["check"] = run_check(prop, wt)
            meta["caught"] = meta["check"]["exit"] == 1 and bool(meta["check"]["violation_lines"])
    if meta["confirmed"]:
        d = V / "seeded" / f"{prop}-{store_as or k}"
        d.mkdir(parents=True, exist_ok=True)
        shutil.copy(patch, d / "patch.diff")
        shutil.copy(demo, d / "demo.py")
        if notes.exists():
            shutil.copy(notes, d / "notes.md")
            meta["needs_to_manifest"] = first_para(notes.read_text())
        meta["what_was_run"] = [
            "git worktree add <scratch> HEAD; demo.py on the unchanged tree (exit 0)",
            "git apply patch.diff; pytest test (82 baseline tests pass); demo.py (exit != 0)",
            f"EVO_REPO=<scratch> ./check {prop} quick",
        ]
        (d / "meta.json").write_text(json.dumps(meta, indent=1))
    print(json.dumps({k_: meta[k_] for k_ in meta if k_ not in ("check",)}, indent=1)[:1500])
    if "check" in meta:
        print("check:", meta["check"]["exit"], meta["check"]["violation_lines"][:2], meta["check"]["wall_s"], "s")
    return meta.get("confirmed", False)


def neutral(prop, k, src=None):
    """a behaviour-preserving change written by a sub-agent: tests pass, probe output unchanged, the check must stay silent"""
    src = Path(src or f"/tmp/neu_{prop}_out")
    patch, probe, notes = src / f"patch{k}.diff", src / f"probe{k}.py", src / f"notes{k}.md"
    if not patch.exists():
        raise SystemExit(f"missing {patch}")
    meta = {"property": prop, "kind": "neutral (property-preserving) change",
            "source": "independent sub-agent given only the property text and a scratch worktree",
            "verified_at": time.strftime("%Y-%m-%dT%H:%M:%SZ", time.gmtime())}
    with Worktree(f"neu_{prop}_{k}") as wt:
        out0 = run_demo(wt, probe)[1] if probe.exists() else None
        rc, out = sh(f"git -C {wt} apply {patch}")
        if rc:
            meta["apply_error"] = out
            print(json.dumps(meta, indent=1))
            return False
        ok, msg = run_tests(wt)
        meta["pinned_tests_with_change"] = msg
        out1 = run_demo(wt, probe)[1] if probe.exists() else None
        strip = lambda t: re.sub(r"/tmp/\S+", "<path>", t or "")
        meta["probe_output_identical"] = strip(out0) == strip(out1)
        meta["check"] = run_check(prop, wt)
        meta["silent"] = meta["check"]["exit"] == 0 and not meta["check"]["violation_lines"]
    d = V / "neutral" / f"{prop}-{k}"
    d.mkdir(parents=True, exist_ok=True)
    shutil.copy(patch, d / "patch.diff")
    if probe.exists():
        shutil.copy(probe, d / "probe.py")
    if notes.exists():
        shutil.copy(notes, d / "notes.md")
        meta["summary"] = notes.read_text().strip().split("\n")[0].lstrip("# ").strip()
    meta["what_was_run"] = ["git worktree add <scratch> HEAD; probe.py", "git apply patch.diff; pytest test; probe.py (same output)",
                            f"EVO_REPO=<scratch> ./check {prop} quick (must exit 0 without VIOLATION)"]
    (d / "meta.json").write_text(json.dumps(meta, indent=1))
    print(prop, k, "tests:", msg[:60], "| probe identical:", meta["probe_output_identical"], "| check exit", meta["check"]["exit"],
          meta["check"]["violation_lines"][:1], meta["check"]["wall_s"], "s")
    return meta["silent"]


def neutral_rerun(ids):
    for mf in sorted((V / "neutral").glob("*/meta.json")):
        sid = mf.parent.name
        if ids and sid not in ids and sid.split("-")[0] not in ids:
            continue
        meta = json.loads(mf.read_text())
        with Worktree("neu_" + sid.replace("-", "_")) as wt:
            rc, out = sh(f"git -C {wt} apply {mf.parent / 'patch.diff'}")
            if rc:
                print(sid, "patch does not apply:", out[:200])
                continue
            meta["check"] = run_check(meta["property"], wt)
            meta["silent"] = meta["check"]["exit"] == 0 and not meta["check"]["violation_lines"]
        mf.write_text(json.dumps(meta, indent=1))
        print(sid, "silent" if meta["silent"] else "ALARM", meta["check"]["exit"], meta["check"]["violation_lines"][:1], meta["check"]["wall_s"], "s")


def first_para(t):
    t = t.strip()
    return t[:700]


def rerun(ids):
    ds = sorted((V / "seeded").glob("*/meta.json"))
    for mf in ds:
        sid = mf.parent.name
        if ids and sid not in ids and sid.split("-")[0] not in ids:
            continue
        meta = json.loads(mf.read_text())
        prop = meta["property"]
        if not (V / "harness" / "props" / f"{prop}.py").exists():
            print(sid, "no check yet")
            continue
        with Worktree(sid.replace("-", "_")) as wt:
            rc, out = sh(f"git -C {wt} apply {mf.parent / 'patch.diff'}")
            if rc:
                print(sid, "patch does not apply:", out[:200])
                continue
            meta["check"] = run_check(prop, wt)
            meta["caught"] = meta["check"]["exit"] == 1 and bool(meta["check"]["violation_lines"])
        mf.write_text(json.dumps(meta, indent=1))
        print(sid, "caught" if meta["caught"] else "MISSED", meta["check"]["exit"], meta["check"]["violation_lines"][:1], meta["check"]["wall_s"], "s")


def also(sid, props):
    """run the checks of other properties against a kept change (a change can break several properties)"""
    mf = V / "seeded" / sid / "meta.json"
    meta = json.loads(mf.read_text())
    with Worktree(sid.replace("-", "_")) as wt:
        rc, out = sh(f"git -C {wt} apply {mf.parent / 'patch.diff'}")
        if rc:
            raise SystemExit(out)
        for p in props:
            r = run_check(p, wt)
            meta.setdefault("other_checks", {})[p] = {k: r[k] for k in ("exit", "violation_lines", "wall_s")}
            print(sid, p, r["exit"], r["violation_lines"][:1], r["wall_s"], "s")
    mf.write_text(json.dumps(meta, indent=1))


def title_of(mf):
    f = mf.parent / "notes.md"
    if f.exists():
        t = f.read_text().strip().split("\n")[0].lstrip("# ").strip()
        t = re.sub(r"^C\d\d\s*(/|\(|,)?\s*(round\s*\w+\)?|\(round\s*\w+\))?\s*[/,]?\s*(change\s*\d+)?\s*[—\-–:]*\s*", "", t, flags=re.I)
        return t[:150].replace("|", "\\|")
    return ""


def compact():
    """rows for DESIGN.md: id, one-line summary, verdict of the registered check of its property (and of sibling checks)"""
    out = ["| change | what was changed (one line, from the author's notes) | own check (quick) | other checks |", "|---|---|---|---|"]
    for mf in sorted((V / "seeded").glob("*/meta.json")):
        m = json.loads(mf.read_text())
        c = m.get("check") or {}
        v = (c.get("violation_lines") or [""])[0]
        verdict = "not run" if not c else ("caught" + (", no-failing-input-found" if "no-failing-input-found" in v else " with failing input")) if m.get("caught") else (f"silent: no longer a violation since /repo {m['obsolete_after']} (see meta.json)" if m.get("obsolete_after") else f"MISSED (exit {c.get('exit')})")
        oc = "; ".join(f"{p}: {'caught' if r['exit'] == 1 and r['violation_lines'] else 'no'}" for p, r in (m.get("other_checks") or {}).items())
        out.append(f"| {mf.parent.name} | {title_of(mf)} | {verdict} | {oc} |")
    return "\n".join(out)


def splice():
    d = V / "DESIGN.md"
    s = d.read_text()
    b, e = "<!-- SEEDED_TABLE_BEGIN (tools/seeded.py splice) -->", "<!-- SEEDED_TABLE_END -->"
    block = b + "\n" + compact() + "\n" + e
    if b in s:
        s = s[:s.index(b)] + block + s[s.index(e) + len(e):]
    else:
        s = s.replace("SEEDED_TABLE", block, 1)
    d.write_text(s)


def table():
    print("| seeded change | property | needs | caught by `./check` (quick) | verdict line |")
    print("|---|---|---|---|---|")
    for mf in sorted((V / "seeded").glob("*/meta.json")):
        m = json.loads(mf.read_text())
        need = (m.get("needs_to_manifest") or "").replace("\n", " ")[:110]
        c = m.get("check") or {}
        v = (c.get("violation_lines") or [""])[0]
        v = re.sub(r"replay=\S+", "replay=…", v)
        oc = "; ".join(f"{p}: {'yes' if r['exit'] == 1 and r['violation_lines'] else 'no'}" for p, r in (m.get("other_checks") or {}).items())
        print(f"| {mf.parent.name} | {m['property']} | {need} | {'yes' if m.get('caught') else 'NO' if c else 'not run'}{' (' + oc + ')' if oc else ''} | {v} |")


if __name__ == "__main__":
    a = sys.argv[1:]
    if a and a[0] == "verify":
        src = a[a.index("--src") + 1] if "--src" in a else None
        store_as = a[a.index("--as") + 1] if "--as" in a else None
        sys.exit(0 if verify(a[1], a[2], src, store_as) else 1)
    elif a and a[0] == "run":
        rerun(a[1:])
    elif a and a[0] == "also":
        also(a[1], a[2:])
    elif a and a[0] == "table":
        table()
    elif a and a[0] == "neutral":
        src = a[a.index("--src") + 1] if "--src" in a else None
        sys.exit(0 if neutral(a[1], a[2], src) else 1)
    elif a and a[0] == "neutral-run":
        neutral_rerun(a[1:])
    elif a and a[0] == "compact":
        print(compact())
    elif a and a[0] == "splice":
        splice()
    else:
        print(__doc__)
